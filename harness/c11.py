"""C11 — rule management is coherent over any history, including failed calls.

Proof: lean/MdIt/Props/C11.lean (model lean/MdIt/Ruler.lean).
Tie (T2): random operation histories run on the real `Ruler` / `MarkdownIt` façade and on the model
(driver `ruler` / `facade`), every output compared.  T1: rule tables and presets are regenerated.
Oracle (search engine on the implementation): after every op `getRules(c)` is, by identity, the
filter of `__rules__`; a probe parse dispatches exactly the active rules in order.
"""
from __future__ import annotations

from .common import Ctx, Driver, Finding, enc, enc_list

RULE = (
    "random histories (len<=40 quick / <=400 thorough) of Ruler ops over names a-f (one pushed twice) "
    "+ unknown names, every op kind incl. raising ones, getRules on '' and alt chains interleaved; "
    "and MarkdownIt.enable/disable histories on every preset. A case is one history; non-trivial = at "
    "least one state-changing op succeeded and at least one op raised; distinct = by op sequence."
)

NAMES = ["a", "b", "c", "d", "e", "f"]
UNKNOWN = ["zz", "yy"]
CHAINS = ["", "x", "y", "nochain"]
ALTS = [[], ["x"], ["y"], ["x", "y"]]


def _exc_tag(e: BaseException) -> str:
    return "e:" + type(e).__name__


class Fn:
    """a rule function with an identity number"""

    def __init__(self, n: int):
        self.n = n

    def __call__(self, *a, **k):
        return False


def gen_history(rng, maxlen: int):
    n = rng.randint(1, maxlen)
    ops = []
    fnc = [0]

    def newfn():
        fnc[0] += 1
        return fnc[0]

    def name():
        return rng.choice(NAMES + UNKNOWN) if rng.random() < 0.25 else rng.choice(NAMES)

    def names():
        k = rng.choice([0, 1, 1, 2, 3])
        return [name() for _ in range(k)]

    # start with a few pushes so that most ops hit known names
    for _ in range(rng.randint(0, 5)):
        ops.append(("push", rng.choice(NAMES), newfn(), rng.choice(ALTS)))
    for _ in range(n):
        k = rng.random()
        if k < 0.12:
            ops.append(("push", rng.choice(NAMES), newfn(), rng.choice(ALTS)))
        elif k < 0.2:
            ops.append(("at", name(), newfn(), rng.choice(ALTS)))
        elif k < 0.27:
            ops.append(("before", name(), rng.choice(NAMES), newfn(), rng.choice(ALTS)))
        elif k < 0.34:
            ops.append(("after", name(), rng.choice(NAMES), newfn(), rng.choice(ALTS)))
        elif k < 0.48:
            ops.append(("enable", names(), rng.random() < 0.4))
        elif k < 0.58:
            ops.append(("enableOnly", names(), rng.random() < 0.4))
        elif k < 0.72:
            ops.append(("disable", names(), rng.random() < 0.4))
        elif k < 0.8:
            # lazy iterable of names that re-enters getRules while it is being consumed (ignoreInvalid=True)
            items = [((rng.choice(CHAINS) if rng.random() < 0.6 else None), name()) for _ in range(rng.choice([1, 2, 3]))]
            ops.append(("lazy", rng.random() < 0.5, items))
        elif k < 0.9:
            ops.append(("get", rng.choice(CHAINS)))
        elif k < 0.95:
            ops.append(("active",))
        else:
            ops.append(("all",))
    return ops


def enc_op(op) -> str:
    k = op[0]
    if k in ("push", "at"):
        return f"{k}:{enc(op[1])}:{op[2]}:{enc_list(op[3])}"
    if k in ("before", "after"):
        return f"{k}:{enc(op[1])}:{enc(op[2])}:{op[3]}:{enc_list(op[4])}"
    if k in ("enable", "enableOnly", "disable"):
        return f"{k}:{enc_list(op[1])}:{1 if op[2] else 0}"
    if k == "get":
        return f"get:{enc(op[1])}"
    if k == "lazy":
        items = ",".join(("!" if cb is None else enc(cb)) + ">" + enc(n) for cb, n in op[2]) or "~"
        return f"lazy:{1 if op[1] else 0}:{items}"
    return k


def run_impl(ops, oracle_rng=None):
    """Run a history on the real Ruler; returns (outputs, oracle_error or None, stats)."""
    from markdown_it.ruler import Ruler

    r = Ruler()
    fns: dict[int, Fn] = {}

    def fn(n):
        fns[n] = Fn(n)
        return fns[n]

    outs = []
    bad = None
    dup = False
    changed = raised = 0
    for i, op in enumerate(ops):
        k = op[0]
        act0 = set(r.get_active_rules())
        all0 = set(r.get_all_rules())
        if len(all0) != len(r.get_all_rules()):
            dup = True            # two rules under one name: names no longer identify rules (outside the property's quantifier)
        try:
            if k == "push":
                r.push(op[1], fn(op[2]), {"alt": list(op[3])})
                o = "u"
                changed += 1
            elif k == "at":
                r.at(op[1], fn(op[2]), {"alt": list(op[3])})
                o = "u"
                changed += 1
            elif k == "before":
                r.before(op[1], op[2], fn(op[3]), {"alt": list(op[4])})
                o = "u"
                changed += 1
            elif k == "after":
                r.after(op[1], op[2], fn(op[3]), {"alt": list(op[4])})
                o = "u"
                changed += 1
            elif k == "enable":
                o = "n:" + enc_list(r.enable(list(op[1]), op[2]))
                changed += 1
            elif k == "enableOnly":
                o = "n:" + enc_list(r.enableOnly(list(op[1]), op[2]))
                changed += 1
            elif k == "disable":
                o = "n:" + enc_list(r.disable(list(op[1]), op[2]))
                changed += 1
            elif k == "lazy":
                def gen(items=op[2]):
                    for cb, nm in items:
                        if cb is not None:
                            r.getRules(cb)          # a re-entrant parse asking for a chain
                        yield nm
                o = "n:" + enc_list((r.enable if op[1] else r.disable)(gen(), True))
                changed += 1
            elif k == "get":
                o = "f:" + (",".join(str(f.n) for f in r.getRules(op[1])) or "~")
            elif k == "active":
                o = "n:" + enc_list(r.get_active_rules())
            elif k == "all":
                o = "n:" + enc_list(r.get_all_rules())
            else:
                raise AssertionError(k)
        except KeyError as e:
            o = _exc_tag(e)
            raised += 1
        except Exception as e:  # any other exception class is itself a difference
            o = _exc_tag(e)
            raised += 1
        outs.append(o)
        # oracle: the reported set follows the set semantics of the call (decided on the implementation's own reports)
        if bad is None and not dup and not o.startswith("e:") and len(set(r.get_all_rules())) == len(r.get_all_rules()):
            act1 = set(r.get_active_rules())
            want = None
            if k == "push":
                want = act0 | {op[1]}
            elif k == "at":
                want = act0                       # replacing a rule's function is not an enable
            elif k in ("before", "after"):
                want = act0 | {op[2]}
            elif k == "enable":
                want = act0 | (set(op[1]) & all0)
            elif k == "disable":
                want = act0 - set(op[1])
            elif k == "enableOnly":
                want = set(op[1]) & all0
            elif k in ("get", "active", "all"):
                want = act0
            if want is not None and act1 != want:
                bad = {"after_op": i, "semantics": True, "op": list(op), "active_before": sorted(act0), "active_after": sorted(act1),
                       "expected_after": sorted(want)}
        # oracle: what is applied == what is reported (identity), on every chain
        if bad is None and (oracle_rng is None or oracle_rng.random() < 0.5):
            rules = r.__rules__  # noqa: SLF001 (name is not mangled: trailing dunder)
            for c in CHAINS:
                want = [x.fn for x in rules if x.enabled and (c == "" or c in x.alt)]
                got = r.getRules(c)
                if len(want) != len(got) or any(a is not b for a, b in zip(want, got)):
                    bad = {
                        "after_op": i,
                        "chain": c,
                        "applied": [f.n for f in got],
                        "reported": [f.n for f in want],
                        "active": r.get_active_rules(),
                    }
                    break
    return outs, bad, (changed, raised)


# ---- façade ---------------------------------------------------------------------------------

PRESETS = ["commonmark", "js-default", "zero", "gfm-like", "default"]


def facade_names(rng, md):
    allr = md.get_all_rules()
    pool = sorted({n for v in allr.values() for n in v})
    k = rng.choice([1, 1, 2, 3])
    out = []
    for _ in range(k):
        out.append(rng.choice(["nope", "zz"]) if rng.random() < 0.2 else rng.choice(pool))
    return out


def enc_active(d) -> str:
    return "a:" + "/".join(enc_list(d[k]) for k in ("core", "block", "inline", "inline2"))


FACADE_BAD: list | None = []


def facade_unknown_ok(preset, op, names, ig) -> bool:
    from markdown_it import MarkdownIt

    md = MarkdownIt(preset)
    known = {x for v in md.get_all_rules().values() for x in v}
    try:
        getattr(md, op)(list(names), ig)
        raised = False
    except ValueError:
        raised = True
    return raised == (any(x not in known for x in names) and not ig)


def run_facade(rng, preset: str, maxlen: int):
    from markdown_it import MarkdownIt

    try:
        md = MarkdownIt(preset)
    except ModuleNotFoundError:
        return None
    # identity numbering as in MdIt.Rulers.fresh: base + index
    ident = {}
    for base, ruler in ((100, md.core.ruler), (200, md.block.ruler), (300, md.inline.ruler), (400, md.inline.ruler2)):
        for i, r in enumerate(ruler.__rules__):
            ident[id(r.fn)] = base + i
    ops, outs = [], []
    n = rng.randint(1, maxlen)
    known = {x for v in md.get_all_rules().values() for x in v}
    for _ in range(n):
        k = rng.random()
        if k < 0.7:
            en = k < 0.35
            ns, ig = facade_names(rng, md), rng.random() < 0.3
            ops.append(f"{'en' if en else 'dis'}:{enc_list(ns)}:{1 if ig else 0}")
            try:
                (md.enable if en else md.disable)(ns, ig)
                outs.append("u")
            except Exception as e:
                outs.append(_exc_tag(e))
            # oracle (independent of the model): an unknown name is rejected unless asked to ignore it
            unknown = [x for x in ns if x not in known]
            if (outs[-1] != "u") != (bool(unknown) and not ig) and FACADE_BAD is not None:
                FACADE_BAD.append({"preset": preset, "op": "enable" if en else "disable", "names": ns, "ignoreInvalid": ig,
                                   "outcome": outs[-1], "unknown": unknown})
        elif k < 0.8:
            ops.append("active")
            outs.append(enc_active(md.get_active_rules()))
        elif k < 0.85:
            ops.append("all")
            outs.append(enc_active(md.get_all_rules()))
        elif k < 0.93:
            ops.append("chains")
            ch = [md.core.ruler.getRules(""), md.block.ruler.getRules(""), md.inline.ruler.getRules(""),
                  md.inline.ruler2.getRules("")]
            outs.append("c:" + "/".join((",".join(str(ident[id(f)]) for f in c) or "~") for c in ch))
        else:
            c = rng.choice(["paragraph", "reference", "blockquote", "list", "nochain"])
            ops.append(f"alt:{enc(c)}")
            outs.append("f:" + (",".join(str(ident[id(f)]) for f in md.block.ruler.getRules(c)) or "~"))
    return md, ops, outs


def probe_dispatch(md):
    """Parse ':' and record which rules are dispatched, per chain, in order (first occurrence)."""
    act = md.get_active_rules()
    if not {"normalize", "block", "inline"} <= set(act["core"]):
        return None
    if "paragraph" not in act["block"] or "text" not in act["inline"]:
        return None
    if md.options.get("linkify"):
        return None  # the optional linkifier is not installed here: the rule raises ModuleNotFoundError
    log = {"core": [], "block": [], "inline": [], "inline2": []}
    saved = []

    def wrap(chain, name, f):
        def g(*a, **k):
            if name not in log[chain]:
                log[chain].append(name)
            return f(*a, **k)
        return g

    for chain, ruler in (("core", md.core.ruler), ("block", md.block.ruler), ("inline", md.inline.ruler),
                         ("inline2", md.inline.ruler2)):
        for r in ruler.__rules__:
            saved.append((r, r.fn))
    # wrap *every* rule (also disabled ones: a disabled rule that runs is the bug) without using the
    # ruler API, then drop the caches by the documented route (enable of nothing)
    for chain, ruler in (("core", md.core.ruler), ("block", md.block.ruler), ("inline", md.inline.ruler),
                         ("inline2", md.inline.ruler2)):
        for r in ruler.__rules__:
            r.fn = wrap(chain, r.name, r.fn)
    try:
        # NB: caches are deliberately NOT invalidated here when they hold the right functions'
        # *positions*: we compare names, so rebuild through a fresh compile only
        for ruler in (md.core.ruler, md.block.ruler, md.inline.ruler, md.inline.ruler2):
            ruler.enable([], True)
        md.parse(":\n")
    finally:
        for r, f in saved:
            r.fn = f
        for ruler in (md.core.ruler, md.block.ruler, md.inline.ruler, md.inline.ruler2):
            ruler.enable([], True)
    want = {
        "core": act["core"],
        "block": act["block"][: act["block"].index("paragraph") + 1],
        "inline": act["inline"],
        "inline2": act["inline2"],
    }
    if "linkify" in want["core"] and not md.options.get("linkify"):
        pass
    return log, want


SPY_DOC = ("para\nmore\n\n[foo]: /u\n'title\ncont'\n\n[bar\nbaz]: /v\n\n> q\nlazy\n\n- a\n- b\nx\n\nh\nmore\n===\n\n|a|b|\n|-|-|\n|1|2|\nrow\n")
# chain -> functions (rule bodies) that may run it; the caller is identified by its frame, not by parentType (which the list
# rule's own chain sees stale: observation O4)
SPY_ALLOWED = {"paragraph": {"paragraph", "lheading"}, "reference": {"reference"}, "blockquote": {"blockquote", "table"}, "list": {"list_block"}}


def chain_spies(ctx: Ctx):
    """one never-matching rule per named terminator chain (alt = [chain] only): it must be called, in silent mode, exactly
    from the rules that are documented to run that chain — what getRules(chain) reports is what is applied"""
    from markdown_it import MarkdownIt

    for preset in ("commonmark", "js-default"):
        md = MarkdownIt(preset).enable("table")
        seen = {c: set() for c in SPY_ALLOWED}
        for c in SPY_ALLOWED:
            def spy(state, startLine, endLine, silent, _c=c):
                import sys as _sys
                seen[_c].add((_sys._getframe(1).f_code.co_name, bool(silent)))
                return False
            md.block.ruler.before("paragraph", "spy_" + c, spy, {"alt": [c]})
        md.parse(SPY_DOC)
        for c, allowed in SPY_ALLOWED.items():
            reported = "spy_" + c in [r.name for r in md.block.ruler.__rules__ if r.enabled and c in r.alt]
            silent_from = {p_ for p_, s_ in seen[c] if s_}
            ctx.count(("spy", preset, c), nontrivial=True)
            if reported and not silent_from:
                ctx.fail("applied!=reported", f"getRules({c!r}) reports the rule spy_{c} but no rule ever ran it as a terminator on a document "
                         f"that exercises every terminator-running rule", {"preset": preset, "chain": c, "input": SPY_DOC})
            elif not silent_from <= allowed:
                ctx.fail("applied!=reported", f"a rule registered for the {c!r} chain only was run as a terminator by "
                         f"{sorted(silent_from - allowed)}: the chain applied there is not the one getRules reports for it",
                         {"preset": preset, "chain": c, "seen": sorted(map(str, seen[c])), "input": SPY_DOC})


def run(ctx: Ctx) -> None:
    quick = ctx.quick()
    del FACADE_BAD[:]
    chain_spies(ctx)
    nh = 1500 if quick else 40000
    maxlen = 40 if quick else 400
    rng = ctx.rng
    drv = Driver()
    try:
        hist = [gen_history(rng, maxlen if rng.random() < 0.9 else 6) for _ in range(nh)]
        lines = ["ruler " + " ".join(enc_op(o) for o in ops) for ops in hist]
        model = drv.batch(lines)
        kinds: dict[str, int] = {}
        for ops, line, mout in zip(hist, lines, model):
            outs, bad, (changed, raised) = run_impl(ops, rng)
            for o in ops:
                kinds[o[0]] = kinds.get(o[0], 0) + 1
            ctx.count(line, nontrivial=(changed > 0 and raised > 0))
            ctx.corr_compared += 1
            if " ".join(outs) != mout:
                mo = mout.split(" ")
                i = next((i for i, (a, b) in enumerate(zip(outs, mo)) if a != b), min(len(outs), len(mo)))
                ctx.mismatch(
                    "Ruler history: implementation and model differ",
                    {"history": [list(o) for o in ops[: i + 1]], "impl": outs[i] if i < len(outs) else None,
                     "model": mo[i] if i < len(mo) else None, "request": line},
                )
            if bad is not None and bad.get("semantics"):
                ctx.fail("reported!=calls", f"after {bad['op'][0]} the set of active rules is not what the set semantics of the call gives",
                         {"history": [list(o) for o in ops[: bad["after_op"] + 1]], **bad})
            elif bad is not None:
                ctx.fail(
                    "applied!=reported",
                    "rules applied by getRules differ from the rules reported as active",
                    {"history": [list(o) for o in ops[: bad["after_op"] + 1]], **bad},
                )
            if len(ctx.samples) < 3 and raised and changed:
                ctx.sample({"history": [list(o) for o in ops[:12]], "outputs": outs[:12]})
        ctx.cov["op_kinds"] = kinds
        # façade
        nf = 300 if quick else 6000
        fl, fo, fmd = [], [], []
        for i in range(nf):
            preset = PRESETS[i % len(PRESETS)]
            res = run_facade(rng, preset, 12 if quick else 40)
            if res is None:
                continue
            md, ops, outs = res
            fl.append("facade " + enc(preset) + " " + " ".join(ops))
            fo.append(outs)
            fmd.append(md)
        fm = drv.batch(fl)
        nprobe = 0
        for line, outs, mout, md in zip(fl, fo, fm, fmd):
            ctx.count(line, nontrivial=any(o.startswith("e:") for o in outs))
            ctx.corr_compared += 1
            if " ".join(outs) != mout:
                mo = mout.split(" ")
                i = next((i for i, (a, b) in enumerate(zip(outs, mo)) if a != b), min(len(outs), len(mo)))
                ctx.mismatch("facade history: implementation and model differ",
                             {"request": line, "index": i, "impl": outs[i] if i < len(outs) else None,
                              "model": mo[i] if i < len(mo) else None})
            pr = probe_dispatch(md)
            if pr is not None:
                nprobe += 1
                log, want = pr
                for ch in ("core", "block", "inline", "inline2"):
                    if log[ch] != want[ch]:
                        ctx.fail("dispatched!=active",
                                 f"probe parse dispatched {log[ch]} on chain {ch} but active rules are {want[ch]}",
                                 {"request": line, "chain": ch, "dispatched": log[ch], "active": want[ch]})
                        break
        for b in (FACADE_BAD or [])[:20]:
            ctx.fail("unknown-name-not-rejected", f"MarkdownIt.{b['op']}({b['names']}, ignoreInvalid={b['ignoreInvalid']}) ended with "
                     f"{b['outcome']!r} although unknown names = {b['unknown']}", b)
        ctx.cov["facade_histories"] = len(fl)
        ctx.cov["probe_parses"] = nprobe
        if fl:
            ctx.sample({"facade_request": fl[0][:300]})
    finally:
        drv.close()
    f_ = chains_after_parses(ctx)
    if f_ is not None:
        ctx.findings.append(f_)
    ctx.partial += []
    ctx.assumptions += [
        "rule functions are compared by identity; alt lists are lists of str",
        "names arguments are lists (a bare str argument is wrapped to a one-element list by the code; modelled as such)",
    ]


CHAIN_DOCS = ["| a | b |\n|---|---|\n| 1 | 2 |\n", "> q\nlazy\n> r\n", "- a\n- b\n\n1. c\n", "para\n***\n# h\n```\nx\n```\n",
              "[r]: /u 'T'\n\n[r]\n", "a\n===\n<div>\nx\n</div>\n", "a|b\n-|-\nc|d\n> q\n", "- > | a |\n  > |---|\n  > | 1 |\nlazy\n"]


def chains_after_parses(ctx: Ctx):
    """what the ruler reports for every chain stays `enabled rules in order, filtered by alt` across parses: user rules with a
    one-chain alt (also for chains no built-in rule names) in front of `paragraph`, documents that make every rule that runs a
    terminator chain run it; compared after every parse.  Returns a Finding or None."""
    from markdown_it import MarkdownIt

    chains = ["", "paragraph", "reference", "blockquote", "list", "table", "custom", "nonexistent"]
    for preset, extra in (("commonmark", ["table"]), ("js-default", []), ("zero", ["table", "blockquote", "list", "fence", "hr", "heading", "lheading", "reference", "html_block", "code"])):
        md = MarkdownIt(preset)
        if extra:
            md.enable(extra)
        calls = []
        for ch in chains[1:-1]:
            def probe(state, startLine, endLine, silent, _ch=ch):
                calls.append(_ch)
                return False
            md.block.ruler.before("paragraph", "probe_" + ch, probe, {"alt": [ch]})

        def spec(chain):
            return [r.fn for r in md.block.ruler.__rules__ if r.enabled and (chain == "" or chain in r.alt)]

        history = []
        for doc in CHAIN_DOCS + CHAIN_DOCS[:3]:
            md.parse(doc)
            history.append(doc)
            ctx.count((preset, doc, "chains-after-parse"), nontrivial=True)
            for chain in chains:
                got = md.block.ruler.getRules(chain)
                if list(got) != spec(chain):
                    names = {id(r.fn): r.name for r in md.block.ruler.__rules__}
                    return Finding("applied!=reported", f"after parsing, getRules({chain!r}) is no longer the enabled rules filtered by alt",
                                   {"preset": preset, "enabled_extra": extra, "parsed": history, "chain": chain,
                                    "getRules": [names.get(id(f), "?") for f in got], "expected": [names.get(id(f), "?") for f in spec(chain)]})
    return None


def search(ctx: Ctx):
    """Directed search when a proof obligation or the correspondence is broken: exhaustive short
    histories on the implementation with the oracle."""
    import itertools

    f = chains_after_parses(Ctx(ctx.pid, "quick", ctx.seed))
    if f is not None:
        return f
    atoms = [
        ("push", "a", 1, ["x"]), ("push", "b", 2, []), ("get", ""), ("get", "x"),
        ("enable", ["a"], False), ("disable", ["a"], False), ("disable", ["b", "zz"], False),
        ("enable", ["zz", "a"], False), ("enableOnly", ["a", "zz"], False), ("enableOnly", ["b"], True),
        ("at", "a", 3, []), ("at", "zz", 4, []), ("before", "a", "c", 5, ["x"]), ("after", "zz", "c", 6, []),
        ("disable", ["zz"], True),
    ]
    pre = [("push", "a", 1, ["x"]), ("push", "b", 2, [])]
    for k in (1, 2, 3):
        for combo in itertools.product(atoms, repeat=k):
            ops = pre + list(combo)
            outs, bad, _ = run_impl(ops, None)
            if bad is not None:
                return Finding("reported!=calls" if bad.get("semantics") else "applied!=reported",
                               "the reported / applied rules do not follow the calls", {"history": [list(o) for o in ops], **bad})
    # façade: every pair (known name, unknown name) in both orders, and singletons
    from markdown_it import MarkdownIt
    for preset in ("commonmark", "js-default", "zero"):
        names = sorted({x for v in MarkdownIt(preset).get_all_rules().values() for x in v})
        for op in ("enable", "disable"):
            for ig in (False, True):
                cands = [["nope"]] + [[n_, "nope"] for n_ in names] + [["nope", n_] for n_ in names] + [[n_] for n_ in names]
                cands += [[a_, b_, "nope"] for a_ in names[:6] for b_ in names[-6:]]
                for ns in cands:
                    if not facade_unknown_ok(preset, op, ns, ig):
                        return Finding("unknown-name-not-rejected", f"MarkdownIt.{op}({ns}, ignoreInvalid={ig}) mishandles the unknown name",
                                       {"preset": preset, "op": op, "names": ns, "ignoreInvalid": ig})
    return None


def replay(ctx: Ctx, obj: dict) -> bool:
    if obj.get("kind") == "unknown-name-not-rejected":
        return facade_unknown_ok(obj["preset"], obj["op"], obj["names"], obj["ignoreInvalid"])
    if "parsed" in obj:
        return chains_after_parses(Ctx(ctx.pid, "quick", 0)) is None
    if "history" in obj:
        ops = [tuple(o) for o in obj["history"]]
        outs, bad, _ = run_impl(ops, None)
        return bad is None
    return True
