"""Shared machinery of all checks: paths, Lean build + proof audit, model driver, verdict, evidence.

Run by /venv/bin/python with cwd=/verif (see ./check).  Nothing here imports markdown_it at module
import time from anywhere but /repo's working tree.
"""
from __future__ import annotations

import fcntl
import hashlib
import json
import os
import random
import re
import subprocess
import sys
import time
from pathlib import Path

ROOT = Path(__file__).resolve().parent.parent
LEAN = ROOT / "lean"
REPO = Path(os.environ.get("VERIF_REPO", "/repo"))
EVID = ROOT / "evidence"
REPLAYS = ROOT / "replays"
CORPUS = ROOT / "corpus"
DRIVER = LEAN / ".lake" / "build" / "bin" / "driver"

ALLOWED_AXIOMS = {"propext", "Classical.choice", "Quot.sound"}
FORBIDDEN = re.compile(
    r"\b(sorry|admit|native_decide|bv_decide|implemented_by|unsafe)\b|^\s*axiom\s|maxHeartbeats\s+0\b"
)

TRUSTED_BASE = [
    "Lean 4.33.0 kernel (thorough tier: re-checked by leanchecker)",
    "axioms per theorem audited on every run: subset of {propext, Classical.choice, Quot.sound}",
    "hand-written Lean model of the code; tie to /repo = T1 tables regenerated from the working tree "
    "+ T2 differential correspondence (harness/*.py, lean/Main.lean driver)",
    "CPython 3.12 semantics of str/list/dict/exceptions as transcribed in the model",
]


def use_repo() -> None:
    """Make `import markdown_it` resolve to /repo's working tree."""
    p = str(REPO)
    if p in sys.path:
        sys.path.remove(p)
    sys.path.insert(0, p)
    for m in list(sys.modules):
        if m == "markdown_it" or m.startswith("markdown_it."):
            f = getattr(sys.modules[m], "__file__", "") or ""
            if not f.startswith(p):
                del sys.modules[m]


# ---------------------------------------------------------------------------------------------
# Lean side
# ---------------------------------------------------------------------------------------------


class LeanStatus:
    def __init__(self) -> None:
        self.build_ok = False
        self.build_log = ""
        self.theorems: list[str] = []
        self.axioms: dict[str, list[str]] = {}
        self.bad_axioms: dict[str, list[str]] = {}
        self.forbidden: list[str] = []
        self.failed_decls: list[str] = []
        self.wall = 0.0
        self.tables_changed: list[str] = []

    @property
    def ok(self) -> bool:
        return (
            self.build_ok
            and not self.bad_axioms
            and not self.forbidden
            and len(self.axioms) == len(self.theorems)
            and len(self.theorems) > 0
        )


def _strip_comments(src: str) -> str:
    # remove /- ... -/ (nested) and -- line comments
    out = []
    i, depth, n = 0, 0, len(src)
    while i < n:
        if src.startswith("/-", i):
            depth += 1
            i += 2
            continue
        if depth and src.startswith("-/", i):
            depth -= 1
            i += 2
            continue
        if depth:
            if src[i] == "\n":
                out.append("\n")
            i += 1
            continue
        if src.startswith("--", i):
            while i < n and src[i] != "\n":
                i += 1
            continue
        out.append(src[i])
        i += 1
    return "".join(out)


def prop_modules(pid: str) -> list[str]:
    """Lean modules holding the property's theorems: Props/<pid>.lean and continuation files Props/<pid>[a-z].lean."""
    d = LEAN / "MdIt" / "Props"
    out = [f"MdIt.Props.{pid}"] if (d / f"{pid}.lean").exists() else []
    out += [f"MdIt.Props.{f.stem}" for f in sorted(d.glob(f"{pid}[a-z].lean"))]
    return out


def prop_theorems(pid: str) -> list[str]:
    """Fully qualified names of the theorems stated in lean/MdIt/Props/<pid>.lean (and continuation files)."""
    out = []
    for mod in prop_modules(pid):
        f = LEAN / (mod.replace(".", "/") + ".lean")
        src = _strip_comments(f.read_text())
        ns = [f"MdIt.{pid}"]
        m = re.search(r"^namespace\s+(\S+)", src, re.M)
        if m:
            ns = [m.group(1)]
        out += [f"{ns[0]}.{n}" for n in re.findall(r"^\s*theorem\s+([A-Za-z_][\w'.]*)", src, re.M)]
    return out


def grep_forbidden() -> list[str]:
    hits = []
    for f in sorted(LEAN.rglob("*.lean")):
        if ".lake" in f.parts:
            continue
        src = _strip_comments(f.read_text())
        for ln, line in enumerate(src.split("\n"), 1):
            if FORBIDDEN.search(line):
                hits.append(f"{f.relative_to(LEAN)}:{ln}: {line.strip()[:120]}")
    return hits


def lean_prepare(pid: str, tier: str = "quick") -> LeanStatus:
    """T1 (regenerate tables from /repo) + lake build of the property's theorems and the driver +
    axiom audit.  Serialised by a file lock (checks may be started in parallel)."""
    from . import gen_tables

    st = LeanStatus()
    t0 = time.time()
    (LEAN / ".lake").mkdir(exist_ok=True)
    lockf = open(LEAN / ".lake" / "verif.lock", "w")
    fcntl.flock(lockf, fcntl.LOCK_EX)
    try:
        try:
            st.tables_changed = gen_tables.generate()
        except Exception as e:  # a table that cannot be extracted is a broken tie, reported by caller
            st.build_log = f"gen_tables failed: {type(e).__name__}: {e}"
            st.theorems = prop_theorems(pid)
            return st
        st.theorems = prop_theorems(pid)
        mods = prop_modules(pid) or [f"MdIt.Props.{pid}"]
        targets = [*mods, "driver"]
        p = subprocess.run(
            ["lake", "build", *targets], cwd=LEAN, capture_output=True, text=True, timeout=3000
        )
        st.build_log = (p.stdout + p.stderr)[-20000:]
        st.build_ok = p.returncode == 0
        if not st.build_ok:
            for m in re.finditer(r"error: (\S+\.lean):(\d+):(\d+)", p.stdout + p.stderr):
                st.failed_decls.append(_decl_at(LEAN / m.group(1), int(m.group(2))))
            st.wall = time.time() - t0
            return st
        st.forbidden = grep_forbidden()
        # axiom audit
        adir = LEAN / ".lake" / "audit"
        adir.mkdir(exist_ok=True)
        af = adir / f"{pid}.lean"
        af.write_text(
            "".join(f"import {m_}\n" for m_ in mods) + "".join(f"#print axioms {t}\n" for t in st.theorems)
        )
        p = subprocess.run(
            ["lake", "env", "lean", str(af)], cwd=LEAN, capture_output=True, text=True, timeout=1200
        )
        out = p.stdout + p.stderr
        for m in re.finditer(
            r"'([^\s]+)' (?:depends on axioms: \[([^\]]*)\]|does not depend on any axioms)", out
        ):
            ax = [a.strip() for a in (m.group(2) or "").replace("\n", " ").split(",") if a.strip()]
            st.axioms[m.group(1)] = ax
            bad = [a for a in ax if a not in ALLOWED_AXIOMS]
            if bad:
                st.bad_axioms[m.group(1)] = bad
        if tier == "thorough":
            p = subprocess.run(
                ["lake", "env", "leanchecker", *mods],
                cwd=LEAN, capture_output=True, text=True, timeout=3000,
            )
            if p.returncode != 0:
                st.build_ok = False
                st.build_log += "\nleanchecker: " + (p.stdout + p.stderr)[-4000:]
    finally:
        fcntl.flock(lockf, fcntl.LOCK_UN)
        lockf.close()
        st.wall = time.time() - t0
    return st


def _decl_at(path: Path, line: int) -> str:
    try:
        lines = path.read_text().split("\n")
    except OSError:
        return f"{path.name}:{line}"
    for i in range(min(line, len(lines)) - 1, -1, -1):
        m = re.match(r"\s*(?:theorem|lemma|def|example|instance)\s+([\w'.]+)?", lines[i])
        if m:
            return f"{path.relative_to(LEAN)}:{m.group(1) or 'example'}"
    return f"{path.name}:{line}"


class Driver:
    """Line protocol to the compiled model (lean/Main.lean).  One request line, one response line."""

    def __init__(self) -> None:
        self.p = subprocess.Popen(
            [str(DRIVER)], stdin=subprocess.PIPE, stdout=subprocess.PIPE, text=True, bufsize=1 << 20,
            encoding="utf-8",
        )
        self.n = 0

    def batch(self, lines: list[str]) -> list[str]:
        """Send all lines (writer thread), read as many responses."""
        import threading

        assert self.p.stdin and self.p.stdout
        stdin = self.p.stdin

        def writer() -> None:
            try:
                for i in range(0, len(lines), 500):
                    stdin.write("\n".join(lines[i : i + 500]) + "\n")
                stdin.flush()
            except (BrokenPipeError, ValueError):
                pass

        th = threading.Thread(target=writer, daemon=True)
        th.start()
        out: list[str] = []
        for _ in lines:
            r = self.p.stdout.readline()
            if not r:
                raise RuntimeError("model driver died")
            out.append(r.rstrip("\n"))
        th.join()
        self.n += len(lines)
        return out

    def ask(self, line: str) -> str:
        return self.batch([line])[0]

    def close(self) -> None:
        try:
            assert self.p.stdin
            self.p.stdin.close()
            self.p.wait(timeout=10)
        except Exception:
            self.p.kill()


def enc(s: str) -> str:
    """Protocol encoding of a string: '-' for empty, else code points in hex joined by '.'"""
    if s == "":
        return "-"
    return ".".join(format(ord(c), "x") for c in s)


def dec(t: str) -> str:
    if t == "-" or t == "":
        return ""
    return "".join(chr(int(x, 16)) for x in t.split("."))


def enc_list(xs) -> str:
    """list of strings: '~' for empty list, items joined by ','"""
    xs = list(xs)
    if not xs:
        return "~"
    return ",".join(enc(x) for x in xs)


def dec_list(t: str) -> list[str]:
    if t == "~" or t == "":
        return []
    return [dec(x) for x in t.split(",")]


# ---------------------------------------------------------------------------------------------
# Verdict / evidence
# ---------------------------------------------------------------------------------------------


class Finding:
    def __init__(self, kind: str, what: str, replay: dict):
        self.kind = kind  # stable signature used to match known findings
        self.what = what
        self.replay = replay


class Ctx:
    def __init__(self, pid: str, tier: str, seed: int):
        self.pid = pid
        self.tier = tier
        self.seed = seed
        self.rng = random.Random((seed << 8) ^ int(pid[1:]))
        self.t0 = time.time()
        self.findings: list[Finding] = []  # property fails on the implementation
        self.mismatches: list[dict] = []  # model vs implementation differ (not by itself a violation)
        self.evaluations = 0
        self.nontrivial: set = set()
        self.samples: list = []
        self.cov: dict = {}
        self.assumptions: list[str] = []
        self.partial: list[str] = []  # what the theorems do not cover
        self.lean: LeanStatus | None = None
        self.corr_compared = 0
        self.budget_s = 0.0

    def quick(self) -> bool:
        return self.tier == "quick"

    def count(self, key=None, nontrivial: bool = True) -> None:
        self.evaluations += 1
        if nontrivial and key is not None:
            if len(self.nontrivial) < 2_000_000:
                self.nontrivial.add(key if isinstance(key, (int, str)) else hash(key))

    def sample(self, x, cap: int = 6) -> None:
        if len(self.samples) < cap:
            self.samples.append(x)

    def fail(self, kind: str, what: str, replay: dict) -> None:
        if len(self.findings) < 200:
            self.findings.append(Finding(kind, what, replay))

    def mismatch(self, what: str, replay: dict) -> None:
        if len(self.mismatches) < 200:
            self.mismatches.append({"what": what, **replay})

    def elapsed(self) -> float:
        return time.time() - self.t0


def load_known() -> list[dict]:
    f = ROOT / "known_findings.json"
    if not f.exists():
        return []
    return json.loads(f.read_text())["findings"]


def match_known(pid: str, fd: Finding, known: list[dict]) -> dict | None:
    for k in known:
        if k.get("property") != pid or k.get("status") != "known":
            continue
        if k.get("kind") != fd.kind:
            continue
        rx = k.get("input_regex")
        if rx is not None:
            s = fd.replay.get("input", "")
            if not isinstance(s, str) or not re.search(rx, s, re.S):
                continue
        return k
    return None


def write_replay(pid: str, obj: dict) -> str:
    REPLAYS.mkdir(exist_ok=True)
    blob = json.dumps(obj, sort_keys=True, ensure_ascii=True, default=repr)
    h = hashlib.sha1(blob.encode()).hexdigest()[:12]
    p = REPLAYS / f"{pid}-{h}.json"
    p.write_text(json.dumps(obj, indent=1, ensure_ascii=True, default=repr))
    return str(p.relative_to(ROOT))


def finish(ctx: Ctx, rule: str, search=None) -> int:
    """Decision logic of DESIGN.md §5.  Returns the process exit code."""
    pid = ctx.pid
    known = load_known()
    lean = ctx.lean
    lines: list[str] = []
    violations = 0
    known_hits: dict[str, str] = {}
    for fd in ctx.findings:
        k = match_known(pid, fd, known)
        if k is not None:
            known_hits.setdefault(k["id"], f"{k['what']}")
            continue
        path = write_replay(pid, {"property": pid, "kind": fd.kind, "what": fd.what, **fd.replay})
        lines.append(f"VIOLATION property={pid} replay={path}")
        violations += 1
        if violations >= 5:
            break
    for kid, what in known_hits.items():
        print(f"KNOWN-FINDING: property={pid} {kid}: {what}")

    proof_broken = lean is not None and not lean.ok
    corr_broken = bool(ctx.mismatches)
    if violations == 0 and (proof_broken or corr_broken):
        # a broken proof obligation / correspondence is not by itself a violation: search for a
        # concrete failing input first
        found = None
        if search is not None:
            try:
                found = search(ctx)
            except Exception as e:  # search engine trouble must not mask the broken obligation
                found = None
                ctx.cov["search_error"] = f"{type(e).__name__}: {e}"
        if found is not None and match_known(pid, found, known) is None:
            path = write_replay(pid, {"property": pid, "kind": found.kind, "what": found.what, **found.replay})
            lines.append(f"VIOLATION property={pid} replay={path}")
            violations += 1
        else:
            obj: dict = {"property": pid, "no_failing_input_found": True}
            if proof_broken and lean is not None:
                obj["broken"] = "proof"
                obj["build_ok"] = lean.build_ok
                obj["failed_declarations"] = lean.failed_decls
                obj["bad_axioms"] = lean.bad_axioms
                obj["forbidden_tokens"] = lean.forbidden
                obj["missing_audit"] = [t for t in lean.theorems if t not in lean.axioms]
                obj["tables_changed"] = lean.tables_changed
                obj["log_tail"] = lean.build_log[-3000:]
            if corr_broken:
                obj["broken"] = obj.get("broken", "") + "+correspondence" if "broken" in obj else "correspondence"
                obj["disagreements"] = ctx.mismatches[:5]
            path = write_replay(pid, obj)
            lines.append(f"VIOLATION property={pid} replay={path} no-failing-input-found")
            violations += 1

    wall = time.time() - ctx.t0
    nobl = len(lean.theorems) if lean else 0
    ndis = len([t for t in (lean.theorems if lean else []) if t in (lean.axioms if lean else {})
                and t not in (lean.bad_axioms if lean else {})]) if lean and lean.build_ok else 0
    ev = {
        "property_id": pid,
        "tier": ctx.tier,
        "seed": ctx.seed,
        "level": "proof",
        "coverage": {
            "obligations": nobl,
            "discharged": ndis,
            "checker_cmd": f"cd lean && lake build MdIt.Props.{pid} && lake env lean .lake/audit/{pid}.lean"
            + (f" && lake env leanchecker MdIt.Props.{pid}" if ctx.tier == "thorough" else ""),
            "trusted_base": TRUSTED_BASE + ctx.assumptions,
            "theorems": (lean.theorems if lean else []),
            "axioms": (lean.axioms if lean else {}),
            "not_covered_by_theorems": ctx.partial,
            "evaluations": ctx.evaluations,
            "distinct_nontrivial": len(ctx.nontrivial),
            "rule": rule,
            "samples": ctx.samples[:8],
            "correspondence_compared": ctx.corr_compared,
            "correspondence_disagreements": len(ctx.mismatches),
            "oracle_failures": len(ctx.findings),
            "known_findings_hit": sorted(known_hits),
            "tables_regenerated": (lean.tables_changed if lean else []),
            "lean_wall_s": round(lean.wall, 2) if lean else 0,
            "markdown_it_file": ctx.cov.pop("markdown_it_file", ""),
            **ctx.cov,
        },
        "assumptions": ctx.assumptions,
        "wall_s": round(wall, 2),
        "violations": violations,
    }
    EVID.mkdir(exist_ok=True)
    (EVID / f"{pid}.json").write_text(json.dumps(ev, indent=1, ensure_ascii=True, default=repr))
    for ln in lines:
        print(ln)
    print(
        f"{pid} tier={ctx.tier} seed={ctx.seed} theorems={ndis}/{nobl} evaluations={ctx.evaluations} "
        f"nontrivial={len(ctx.nontrivial)} corr={ctx.corr_compared} mism={len(ctx.mismatches)} "
        f"oracle_fail={len(ctx.findings)} violations={violations} wall={wall:.1f}s"
    )
    sys.stdout.flush()
    return 1 if violations else 0
