"""C16 — reference definitions act through env: seeding env equals prepending them.

Proof: lean/MdIt/Props/C16.lean — record_lookup / first_wins (references only ever extended, from any
env), recorded_once (every definition recorded exactly once: first definition or duplicate),
seed_eq_prepend (the env bookkeeping of R then D equals that of R ++ D), normRef_trim.
Tie: env bookkeeping — the definitions each parse finds (taken from `definition` tokens with
inline_definitions on: label, url, title, map) are fed to the model for every env history (fresh,
seeded, seeded twice) and the model's references/duplicates must equal the real env.
Oracle: render(D, env seeded by R) == render(R + blank + D) (HTML), first definition wins, duplicates
recorded with their own maps, label matching under case/whitespace variants, reference form ==
inline form for (text, destination, title) triples.
"""
from __future__ import annotations

import copy

from .common import Ctx, Driver, Finding, enc
from . import gens

RULE = (
    "definition blocks R (1-4 definitions; labels incl. non-ASCII, case variants, internal whitespace, duplicates of labels "
    "used or defined in D; multi-line titles) x documents D (G-doc + reference uses) x env histories (fresh, seeded by "
    "parsing R, seeded twice); (text, destination, title) grid for links and images; a case is (R, D, history) or a "
    "triple; non-trivial = D uses a label R defines, or R holds a duplicate; distinct by case."
)

LABELS = ["foo", "Foo", "FOO", "f  oo", "ß", "SS", "é", "É", "bar baz", "Bar\tBaz", "İ", "i̇", "x]y".replace("]", ""), "a*b", "1", "ǅ", "Ǆ", "ǆ"]
DEST = ["/wiki/Foo_\\(bar\\)", "x\\)", "\\(y", "z\\\\", "q\\*", "/u", "u", "<u v>", "http://a.b/c?d=e&f", "a\\)b", "&amp;x", "%20", "(p)", "jav&#x61;script:x", "JAVASCRIPT:x", "é", "a_b*", "/x#y"]
TITLE = ["", "t", "a b", "<&\">", "\\\"q\\\"", "&quot;", "*e*", "t\nu", " lead", "trail "]
TEXT = ["x", "*e*", "`c`", "a ] b".replace(" ] ", " "), "[in]", "![i](j)", "\\]", "a\nb"]


REF_LABELS = ["r", "r", "a\\\\", "a\\]b", "\\[x\\]", "a\\\\\\\\", "q\\\\ r\\\\", "*s*", "a\\*", "x\\\\\\]y", "é\\\\", "\\\\"]
VALID_TITLES = ["", "", " 'T'", " \"U\"", "\n  'multi\n  line'", " \"first\\\nsecond\"", " 'a\\\nb\\\nc'", " (p\\\nq)", " \"esc \\\" q\"",
                "\n\"t\\\n[z]: /phantom\"", " 'back\\\\'"]
INVALID_TITLES = [" 'x\ny\\'", " \"unclosed\nline", " 'a' b"]


def rand_defs(rng, with_flag=False):
    """a block of reference definitions; `valid` = built only from components that are definitions by the CommonMark
    grammar (so the block is definition-only by construction, whatever the parser under test says)"""
    out = []
    valid = True
    for _ in range(rng.randint(1, 4)):
        lab = rng.choice(LABELS)
        dest = rng.choice(["/a", "/b", "<c d>", "http://x.y", "/e?f=g", "/w/F_\\(b\\)", "p\\)", "(q)", "r\\\\"])
        if rng.random() < 0.06:
            title = rng.choice(INVALID_TITLES)
            valid = False
        else:
            title = rng.choice(VALID_TITLES)
        out.append(f"[{lab}]: {dest}{title}\n")
        if rng.random() < 0.2:
            out.append("\n")
    return ("".join(out), valid) if with_flag else "".join(out)


def rand_use_doc(rng):
    parts = []
    for _ in range(rng.randint(1, 4)):
        k = rng.random()
        lab = rng.choice(LABELS)
        if k < 0.3:
            parts.append(f"[{lab}] and [t][{lab}] ![i][{lab}]\n")
        elif k < 0.5:
            parts.append(gens.rand_doc(rng, 3))
        elif k < 0.7:
            parts.append(f"[{lab}]: /inner 'I'\n")
        else:
            parts.append(f"> [{lab}][]\n")
        parts.append("\n")
    return "".join(parts)


def defs_of(md_defs, src, env):
    """definitions the rule finds, in source order (from definition tokens)"""
    toks = md_defs.parse(src, env)
    out = []
    for t in toks:
        if t.type == "definition":
            out.append((t.meta["id"], t.meta["url"], t.meta["title"], tuple(t.map)))
    return out


def enc_defs(ds):
    return ";".join(f"{enc(l)}/{enc(h)}/{enc(t)}/{m[0]}-{m[1]}" for l, h, t, m in ds) or "~"


def enc_env(env):
    r = ",".join(f"{enc(k)}={enc(v['href'])}={enc(v['title'])}@{v['map'][0]}-{v['map'][1]}" for k, v in env.get("references", {}).items())
    d = ",".join(f"{enc(v['label'])}={enc(v['href'])}={enc(v['title'])}@{v['map'][0]}-{v['map'][1]}" for v in env.get("duplicate_refs", []))
    return f"R:{r} D:{d}"


def run(ctx: Ctx) -> None:
    from markdown_it import MarkdownIt

    quick = ctx.quick()
    rng = ctx.rng
    md = MarkdownIt("commonmark")
    mdd = MarkdownIt("commonmark", {"inline_definitions": True})
    n = 600 if quick else 15000
    drv = Driver()
    try:
        lines, impl, metas = [], [], []
        for _ in range(n):
            R, r_valid = rand_defs(rng, True)
            D = rand_use_doc(rng)
            hist = rng.choice(["fresh", "seeded", "seeded-twice"])
            # ---- oracle: seeding == prepending
            try:
                env = {}
                if hist in ("seeded", "seeded-twice"):
                    md.parse(R, env)
                if hist == "seeded-twice":
                    md.parse(R, env)
                seeded_refs_before = copy.deepcopy(env.get("references", {}))
                a = md.render(D, env)
                pre = R + "\n" + (R + "\n" if hist == "seeded-twice" else "") if hist != "fresh" else ""
                env2 = {}
                b_full = md.render(pre + D, env2)
                b_pre = md.render(pre, {}) if pre else ""
            except Exception:
                continue
            r_out = md.render(R, {})
            if r_out != "":
                if r_valid:
                    ctx.fail("definition-rendered", "a block of valid reference definitions produces output / is not consumed as definitions",
                             {"input": R, "R": R, "history": "fresh", "output": r_out[:200]})
                continue        # side condition: R is a block of reference definitions only
            nontriv = any(f"[{l}" in D for l in LABELS[:6]) or R.count("]:") > 1
            ctx.count((R, D, hist), nontrivial=nontriv)
            if not b_full.startswith(b_pre) or b_full[len(b_pre):] != a:
                # the definitions render to nothing, so the output of pre+D must be (output of pre) + (output of D seeded)
                ctx.fail("seed!=prepend", f"render(D, env seeded by R) differs from render(R + blank + D) ({hist})",
                         {"input": D, "R": R, "history": hist, "seeded": a[:300], "prepended": b_full[len(b_pre):][:300]})
            for k, v in seeded_refs_before.items():
                if env["references"].get(k) != v:
                    ctx.fail("first-does-not-win", "a later definition replaced an earlier one in env", {"input": D, "R": R, "label": k})
            kf = set(env.get("references", {}))
            kp = set(env2.get("references", {}))
            if kf != kp:
                ctx.fail("seed!=prepend", "the set of defined labels differs between seeding and prepending", {"input": D, "R": R, "history": hist})
            else:
                for k in kf:
                    if (env["references"][k]["href"], env["references"][k]["title"]) != (env2["references"][k]["href"], env2["references"][k]["title"]):
                        ctx.fail("seed!=prepend", "a label resolves differently with a seeded env and with prepended definitions",
                                 {"input": D, "R": R, "history": hist, "label": k})
            # ---- tie: env bookkeeping against the model, batch by batch
            try:
                envm = {}
                batches = []
                if hist in ("seeded", "seeded-twice"):
                    batches.append(defs_of(mdd, R, envm))
                if hist == "seeded-twice":
                    batches.append(defs_of(mdd, R, envm))
                batches.append(defs_of(mdd, D, envm))
            except Exception:
                continue
            lines.append("refs " + " ".join(enc_defs(b) for b in batches))
            impl.append(enc_env(envm))
            metas.append((R, D, hist))
            total = sum(len(b) for b in batches)
            if len(envm.get("references", {})) + len(envm.get("duplicate_refs", [])) != total:
                ctx.fail("not-recorded-once", f"{total} definitions found but {len(envm.get('references', {}))} references + "
                         f"{len(envm.get('duplicate_refs', []))} duplicates recorded", {"input": D, "R": R, "history": hist})
            if len(ctx.samples) < 3 and nontriv:
                ctx.sample({"R": R[:60], "D": D[:60], "history": hist})
        got = drv.batch(lines)
        for ln, a, b, m in zip(lines, impl, got, metas):
            ctx.corr_compared += 1
            if a != b:
                ctx.mismatch("env bookkeeping: implementation and model differ", {"R": m[0], "input": m[1], "history": m[2], "impl": a[:500], "model": b[:500]})
        from . import pipeline
        pipeline.tie_full(ctx, drv, 3000 if quick else 80000, ref=True)      # the reference rule itself, end to end (driver `fullparser`)
        pipeline.tie_full(ctx, drv, 1500 if quick else 40000, table=True)     # all eleven block rules, recorded env entries compared (tParse_first_wins is about this model)
    finally:
        drv.close()
    # ---- label matching and reference form == inline form
    for _ in range(400 if quick else 8000):
        text, dest, title = rng.choice(TEXT), rng.choice(DEST), rng.choice(TITLE)
        for bang in ("", "!"):
            tpart = (' "%s"' % title) if title else ""
            inl = "%s[%s](%s%s)\n" % (bang, text, dest, tpart)
            # the label of the full reference form: plain, or ending in / holding backslash escapes (an escaped backslash before the
            # closing bracket, escaped brackets inside) — the bracket that ends it is found by the inline label walk in the use and
            # by the block rule's own scan in the definition, and the two must agree
            rl = rng.choice(REF_LABELS)
            ref = "%s[%s][%s]\n\n[%s]: %s%s\n" % (bang, text, rl, rl, dest, tpart)
            try:
                a, b = md.render(inl), md.render(ref)
            except Exception:
                continue
            ctx.count(("triple", bang, text, dest, title), nontrivial=True)
            ch = (md.parse(inl)[1].children or [None])
            is_link = ch[0] is not None and ((bang == "" and ch[0].type == "link_open" and ch[-1].type == "link_close")
                                             or (bang == "!" and len(ch) == 1 and ch[0].type == "image"))
            if is_link and a != b and "\n" not in title and not dest.endswith("\\"):
                ctx.fail("ref!=inline", "a reference link/image differs from the inline form with the same text, destination and title",
                         {"input": ref, "inline": inl, "inline_html": a, "reference_html": b})
    # ---- long link texts / image descriptions: the reference form has no size limit the inline form lacks (a label may be limited,
    # the text in front of it is not a label)
    for nlen in (998, 999, 1000, 1001, 1500, 4000):
        for text in ("x" * nlen, ("word " * (nlen // 5 + 1))[:nlen].rstrip() + "!", "*e* " + "y" * nlen):
            for bang in ("", "!"):
                inl = "%s[%s](/u \"T\")\n" % (bang, text)
                ref = "%s[%s][r]\n\n[r]: /u \"T\"\n" % (bang, text)
                seeded = "%s[%s][r]\n" % (bang, text)
                ctx.count(("long-text", nlen, bang, text[:3]), nontrivial=True)
                try:
                    a, b = md.render(inl), md.render(ref)
                    c = md.render(seeded, {"references": {"R": {"href": "/u", "title": "T"}}})
                except Exception:
                    continue
                if a != b or a != c:
                    ctx.fail("ref!=inline", "a reference link/image with a long text differs from the inline form with the same text, destination and title",
                             {"input": ref, "inline": inl, "inline_html": a[:200], "reference_html": b[:200], "seeded_html": c[:200], "text_length": len(text)})
    # ---- a title candidate that is rejected must leave no trace: the definition is the destination alone (when the candidate
    # stands on a later line) or no definition at all (when it stands on the destination's line); decided by the grammar,
    # compared with the inline form without a title
    for dest in ("/x", "<a b>", "http://x.y/?q=1", "/w_(v)"):
        for cand in ('"t"', "'t'", "(t)", '"t\nu"', "'multi\nline'"):
            for junk in ("junk", "*e*", "\\", "[q]"):
                for bang in ("", "!"):
                    ctx.count(("rollback", dest, cand, junk, bang), nontrivial=True)
                    doc = f"[r]: {dest}\n{cand} {junk}\n\n{bang}[text][r]\n"
                    want = f"{cand} {junk}\n\n{bang}[text]({dest})\n"
                    env = {}
                    try:
                        got, exp = md.render(doc, env), md.render(want, {})
                    except Exception:
                        continue
                    rec = env.get("references", {}).get("R")
                    if rec is None or rec.get("title") not in ("", None) or got != exp:
                        ctx.fail("rejected-title-leaks", "a title candidate followed by other text on its line is not part of the definition, "
                                 "but the recorded definition / the resolved link is not the destination alone",
                                 {"input": doc, "recorded": rec, "html": got[:300], "inline_form_html": exp[:300]})
                    doc2 = f"[r]: {dest} {cand.splitlines()[0] if chr(10) not in cand else cand} {junk}\n\n[text][r]\n"
                    env2 = {}
                    try:
                        got2 = md.render(doc2, env2)
                    except Exception:
                        continue
                    if "\n" not in cand and (env2.get("references") or "<a " in got2.split("</p>")[-2] if got2.count("</p>") >= 2 else False):
                        ctx.fail("rejected-title-leaks", "text after the title on the destination's line makes the whole line a paragraph, "
                                 "but a definition was recorded", {"input": doc2, "recorded": env2.get("references"), "html": got2[:300]})
    for lab, variants in (("foo bar", ["FOO BAR", "Foo   Bar", " foo\tbar ", "foo\nbar"]), ("é", ["É"]), ("ß", ["SS", "ss", "ẞ"]),
                          ("ǆ", ["ǅ", "Ǆ"]), ("straße", ["STRASSE"])):
        doc0 = f"[{lab}]: /target\n\n"
        for v in variants:
            out = md.render(doc0 + f"[{v}]\n")
            ctx.count(("label", lab, v), nontrivial=True)
            if "/target" not in out:
                ctx.fail("label-match", f"label [{v}] does not match the definition [{lab}] (case folding / whitespace collapsing)",
                         {"input": doc0 + f"[{v}]\n"})
    # interpreter behaviour the model takes as a parameter: str.lower().upper() is idempotent (exhaustive)
    bad = None
    for cp in range(0x110000):
        if 0xD800 <= cp <= 0xDFFF:
            continue
        f = chr(cp).lower().upper()
        if f.lower().upper() != f:
            bad = cp
            break
    ctx.cov["casefold_idempotent_exhaustive"] = bad is None
    if bad is not None:
        ctx.assumptions.append(f"str.lower().upper() is NOT idempotent at U+{bad:04X} on this interpreter")
    ctx.partial += [
        "C16.seed as a statement about whole parses (tokens of D with shifted maps) is C07.concat with A := R and is decided by "
        "the oracle; the env bookkeeping half (seed_eq_prepend, first_wins, recorded_once) is proved",
        "case-insensitive matching rests on the interpreter's str.lower().upper() (a parameter of the model; its idempotence is "
        "checked exhaustively over all code points on every run); whitespace trimming is proved (normRef_trim)",
    ]


def search(ctx: Ctx):
    from markdown_it import MarkdownIt

    c = Ctx(ctx.pid, "quick", ctx.seed + 29)
    md = MarkdownIt()
    for _ in range(5000):
        R, r_valid = rand_defs(c.rng, True)
        D = rand_use_doc(c.rng)
        try:
            if r_valid and md.render(R, {}) != "":
                return Finding("definition-rendered", "a block of valid reference definitions produces output", {"input": R, "R": R, "history": "fresh"})
            env = {}
            md.parse(R, env)
            a = md.render(D, env)
            pre = md.render(R + "\n", {})
            b = md.render(R + "\n" + D, {})
        except Exception:
            continue
        if pre != "":
            continue
        if b[len(pre):] != a:
            return Finding("seed!=prepend", "render(D, env seeded by R) differs from render(R + blank + D)", {"input": D, "R": R, "history": "seeded"})
    return None


def replay(ctx: Ctx, obj: dict) -> bool:
    from markdown_it import MarkdownIt

    md = MarkdownIt()
    if obj.get("kind") == "definition-rendered":
        return md.render(obj["R"], {}) == ""
    if obj.get("kind") == "seed!=prepend" and obj.get("history") == "seeded":
        env = {}
        md.parse(obj["R"], env)
        a = md.render(obj["input"], env)
        pre = md.render(obj["R"] + "\n", {})
        b = md.render(obj["R"] + "\n" + obj["input"], {})
        return b[len(pre):] == a
    return True
