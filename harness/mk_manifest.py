"""Writes /verif/MANIFEST.json from the table below (run: /venv/bin/python -m harness.mk_manifest)."""
from __future__ import annotations

import json
from pathlib import Path

ROOT = Path(__file__).resolve().parent.parent

NOTE = (
    "Trusted base: Lean 4.33 kernel; axioms per theorem audited each run (subset of propext, "
    "Classical.choice, Quot.sound; no native_decide/bv_decide/sorry/own axioms); the hand-written model "
    "is tied to /repo by T1 (tables regenerated from the working tree before every build) and T2 "
    "(differential correspondence through lean/Main.lean's driver) — differential testing with "
    "measured coverage, not proof; CPython semantics as transcribed. "
)

# pid -> (text, note, technique, design_ref)
CLAIMS: dict[str, tuple[str, str, str, str]] = {
    "C11": (
        "FULL on the model: theorem C11.coherent — after any finite history of Ruler operations (each "
        "succeeding or raising) getRules on every chain equals the enabled rules in registration order "
        "filtered by chain membership; set semantics of enable/disable/enableOnly incl. the partially "
        "applied state after a mid-loop KeyError; unknown-name lookups change nothing; facade theorem "
        "for MarkdownIt.enable/disable over the four rulers. Model tied to ruler.py/main.py by random "
        "histories compared op by op (exception class, returned lists, function identities), plus an "
        "identity oracle and a dispatch probe on the real instance.",
        NOTE + "Rule functions are abstracted to identities.",
        "Lean 4 proof (invariant by induction over operation histories) + differential correspondence",
        "§6 C11",
    ),
    "C13": (
        "FULL on the model: theorem C13.interleave — for every number of threads, every schedule of atomic "
        "steps (re-entrancy = one thread running inside another) and every coherent initial cache incl. "
        "None (first use / freshly reconfigured), each thread's responses are a prefix of, and when finished "
        "equal to, its solo responses; r2_never_none: the second read never sees an unpublished cache. The "
        "pre-fix publish-then-fill code is in the file with a decided counter-example schedule. Tie: "
        "single-stepped getRules/__compile__ (sys.monitoring INSTRUCTION) must show the model's cache "
        "value sequence; shared-write audit; pre-emption exploration at bytecode granularity with a hang "
        "watchdog, nested pre-emption, real threads. Partial: the reduction of a parse to its chain "
        "requests and the GIL's per-bytecode atomicity are assumed (tied by the write audit), not proved.",
        NOTE + "GIL atomicity of one bytecode; free-threaded builds and dependency-internal caches out of scope.",
        "Lean 4 proof (invariant over all interleavings of atomic steps) + bytecode-level pre-emption exploration",
        "§6 C13",
    ),
    "C14": (
        "FULL on the model: parse_intact — for every event sequence a parse/render performs on the instance "
        "(chain requests, user-callback invocations) and every fault plan, rules/options/render rules are "
        "unchanged and all rulers coherent; the exception propagates. reset_restores — for every body "
        "(closed under sequencing, ruler ops, facade ops, raises, nested blocks) on every exit path the "
        "active rules equal those on entry, under the stated distinct-names hypothesis. Tie: fault "
        "enumeration on the implementation at every (callback slot, i-th invocation) incl. BaseException, "
        "instance snapshot + probe renders compared; reset_rules bodies compared with the model.",
        NOTE + "A parse is abstracted to its instance-visible events; that nothing else is written is checked, not proved.",
        "Lean 4 proof (induction over events / bodies) + fault enumeration on the implementation",
        "§6 C14",
    ),
    "C12": (
        "FULL on the model (the parser is a parameter P of the model, so the theorems say which inputs a "
        "result can depend on): frame (a call changes only the configuration of the instance it addresses), "
        "config_after_history, probe_function (result of a probe = P(config made by that instance's own "
        "configuration calls, source, env passed)), fresh_equiv, env_omitted, env_frame, "
        "construct_deterministic. Tie: random API histories on 1-3 live instances with interleaved parses; "
        "configuration compared with the model; probe renders/parses compared with a fresh identically "
        "configured twin; deep snapshots of module globals/class attributes/_PRESETS; env leak probes; "
        "caller-supplied preset dict aliasing probe; static scan for shared mutable defaults. That the "
        "implementation has no state the model lacks is checked by this tie, not proved.",
        NOTE + "The sequential parser is abstract (parameter P).",
        "Lean 4 proof (frame/refinement over API histories) + differential histories against fresh twins",
        "§6 C12",
    ),
    "C15": (
        "FULL on the model for: dict_roundtrip (from_dict(as_dict) = identity for both attribute formats, "
        "children converted or not, any nesting depth — mutual induction over the nested token type), "
        "tree_roundtrip (every successful SyntaxTreeNode build flattens to the identical sequence), "
        "walkList_sublist (walk follows stream order); render_repeatable (Props/C15b.lean, on the renderer model tied by `render` / `fullrender`): rendering a "
        "stream again as the first render left it (image alt attributes written — the only write the renderer makes) gives the same output, for every "
        "stream, render options and fence-language function: setAlt is idempotent and a token's neighbours enter renderToken only through type, tag, nesting, "
        "hidden. PARTIAL: 'round-tripped token renders the same' is decided by the oracle on the implementation; sibling/parent link consistency is by construction in the functional model and "
        "checked on the implementation. Tie: dictrt/tree driver requests on parser-produced and damaged "
        "streams compared field by field.",
        NOTE + "meta values other than str are outside the model's Token.",
        "Lean 4 proof (structural induction on nested tokens; functional induction on the tree builder) + differential correspondence",
        "§6 C15",
    ),
    "C17": (
        "FULL on the model for: line endings (crlf_same, cr_same, normalize_mixed: every mixture of LF/CRLF/CR "
        "spellings normalises like the LF source), normalize_clean (no CR/NUL survives), nul_like_fffd, "
        "indent_cols, marker_tab (+ marker_tab_spellings: the block-quote marker arithmetic depends only on "
        "the absolute column the blank run reaches, at any nesting depth); end to end for the modelled sub-parsers "
        "(Props/C17b.lean q_line_endings, q_nul, l_line_endings, l_nul, mini_*; Props/C17c.lean m_line_endings, m_nul with html_block and lheading: any mixture of line-ending spellings and NUL vs U+FFFD give "
        "the same token stream, for every source, rule subset and maxNesting; models tied by `miniblock`/`qblock`/`lblock`/`mblock`); Props/C17d.lean full_line_endings, "
        "full_nul, fullR_line_endings, fullR_nul: the same for MarkdownIt.parse end to end on the modelled sub-language — block tokens, the children of every inline "
        "token at every depth and, with the reference rule, the env entries recorded (tie `fullparse` / `fullparser`). PARTIAL: the full tab congruence "
        "(every rule depends on a prefix spelling only through getLines; list-marker arithmetic) is not a "
        "theorem and is decided by the oracle, exhaustive over the property's constructed family. That equal "
        "normalize results give equal parses rests on normalize being the first core rule (pinned by T1). "
        "Tie: normalize vs the real rule; per-call refinement trace of the live block-quote rule (entry/exit "
        "records of every quoted line) vs quoteOffsets.",
        NOTE,
        "Lean 4 proof (string/column arithmetic lemmas) + refinement trace of the live rule + exhaustive tab family",
        "§6 C17",
    ),
    "C04": (
        "FULL on the renderer model, for every token stream: escapeHtml_eq/escapeHtml_units/escapeHtml_no_meta "
        "(escaped text is a sequence of non-metacharacters and the four entities), render_pieces, no_raw "
        "(without html_block/html_inline tokens no piece is raw: every input-derived character is escaped), "
        "vocab/vocab_fixed (tag and attribute names come only from token.tag / attribute keys, never from "
        "content), and the T1 obligations table_tags/table_keys over the vocabulary scanned from the current "
        "source; xmini_no_html (Props/C04b.lean, from C10.xmini_provenance): with the html option off the modelled inline "
        "sub-parser (text, newline, escape, backticks, strikethrough, emphasis, autolink, html_inline, entity; regular "
        "expressions translated from the live pattern objects) emits no html_inline token, for every source, rule subset and "
        "maxNesting. Likewise m_no_html (Props/C10f.lean) for block-level HTML in the block sub-parser with nine of the eleven rules. full_no_html (Props/C04c.lean): end to end "
        "for MarkdownIt.parse on the modelled sub-language (nine of eleven block rules, eleven of twelve inline rules incl. link and image, core chain; "
        "tie `fullparse`) — with html off, whatever rules are enabled, no html_block token and no html_inline token below any inline token at any depth "
        "of nested image descriptions; full_render_no_raw composes it with no_raw: MarkdownIt.render end to end on that sub-language with html off emits no raw "
        "pass-through piece — every character of the HTML is the renderer's own markup or input text that went through escapeHtml (tie `fullrender`: the HTML of "
        "whole documents under random xhtmlOut / breaks / langPrefix, model vs implementation). PARTIAL: for the rules outside the two sub-parsers 'html off => no html token and only vocabulary "
        "tags' is carried by T1 + its dynamic twin, not by a parser theorem; proper nesting of output tags is decided by the "
        "output lexer on the implementation (incl. a bounded-exhaustive delimiter sweep), not proved. Tie: "
        "renderer model vs real RendererHTML on generated streams/configurations, escapeHtml exhaustively per "
        "character.",
        NOTE + "Fence language extraction (unescapeAll/strip/split) is an external parameter of the model.",
        "Lean 4 proof (renderer as pieces, escape lemma, vocabulary lifting) + differential rendering + output lexer",
        "§6 C04",
    ),
    "C05": (
        "FULL on the model for: encode_range (mdurl.encode, transcribed exactly, emits only URL-safe ASCII for "
        "every input), validate_sound + api (a URL-safe string accepted by validateLink, read the way a browser "
        "reads it — controls/spaces stripped, tab/LF/CR dropped, scheme case-insensitive — has no blacklisted "
        "scheme unless it is a whitelisted data:image URL, for every reformat step in front of encode), T1 "
        "obligations dangerous_covered/good_kinds/default_chars_safe over tables extracted from the live "
        "regexes; xmini_hrefs (Props/C05b.lean): in the modelled inline sub-parser (nine of the twelve inline rules, AUTOLINK_RE / "
        "EMAIL_RE translated from the live pattern objects and run in backtracking order) every link_open of the output carries "
        "exactly href = normalizeLink(url) for a url validateLink accepted — URL-safe ASCII, no dangerous scheme as a browser "
        "reads it — for every source, rule subset, maxNesting and mdurl reformatting; a rejected autolink pushes nothing (the "
        "text stays); link_hrefs (Props/C05c.lean): with the link rule in the chain (inline links, reference links, autolinks; ten of the twelve "
        "inline rules, tie `inlinel`) every link_open carries, as its first attribute, an href that is empty or URL-safe ASCII with no dangerous "
        "scheme — an inline destination is stored only after validateLink accepted its normalised form (a rejected one falls back to the "
        "reference form or stays text), a reference link stores what env holds, assumed acceptable (hypothesis RefsOK: the reference block rule "
        "is outside the modelled sub-parser); image_hrefs (Props/C05d.lean): with the image rule as well (eleven of the twelve inline rules, tie "
        "`inlinei`; the description of an image is parsed by a nested run of the whole inline parser and becomes the token's children) every "
        "link_open carries an href and every image a src — first attribute in both cases — that is empty or URL-safe ASCII with no dangerous "
        "scheme, for the tokens of the stream and of every image description nested in it to any depth (deep token predicate; same RefsOK "
        "hypothesis); full_hrefs (Props/C05e.lean): the same for the output of MarkdownIt.parse end to end on the modelled sub-language (through the inline "
        "core rule and text_join, whose recursion over nested tokens keeps types and attributes: joinToks_deep; tie `fullparse`); fullR_hrefs "
        "(Props/C05f.lean) adds the reference block rule (lean/MdIt/BlockRef.lean, ten of eleven block rules, tie `fullparser`): the rule only ever appends "
        "(label, normalizeLink(dest), title) with validateLink true to env['references'] / env['duplicate_refs'] (C16.reference_records_valid), every other rule, "
        "loop, terminator chain and container with its nested runs hands the tables on (C16.keeps_*, blockLoop_keeps: no engine contract needed), so the env "
        "the inline rules read satisfies RefsOK whenever the env the caller passed in does (envAfter_refsOK): links and images resolved through definitions "
        "standing in the document itself carry validated destinations, and so do all recorded entries. PARTIAL: for the table rule's cells (inline content of a rule outside the model) and linkify 'every href/src the parser stores went "
        "through normalizeLink+validateLink' is not a "
        "theorem (oracle on tokens and rendered attributes + advisory AST scan); the "
        "linkifier clause cannot be run (dependency absent). Tie: encode per code point and on %xx strings, "
        "validateLink on normalised strings, browserScheme twin.",
        NOTE + "mdurl.parse/format and punycode are an external parameter (theorems hold for every value).",
        "Lean 4 proof (range of the encoder, validator vs browser scheme reading) + differential correspondence",
        "§6 C05",
    ),
    "C19": (
        "FULL on the model for the shape part: replacePass_shape/replacements_shape (every substitution function), "
        "replacePass_autolink, smart_frame + smartInline_shape over a faithful transcription of process_inlines "
        "(quote stack, level truncation, position bookkeeping, three replaceAt sites): for every quotes option "
        "and character classification only `text` tokens outside autolinks change, and only in content; "
        "replaceAt_spec; T1 obligation text_join_last. PARTIAL: 'smartquotes substitutes quote characters in "
        "place and nothing else' (QuoteRel) is decided by a DP oracle, not proved. Tie: smartInline vs real "
        "process_inlines under quote options of length 0-4; replace_scoped/replace_rare traversal with stubbed "
        "regexes.",
        NOTE + "The regexes of replacements.py are parameters of the model.",
        "Lean 4 proof (frame invariant over the quote-stack loop) + differential correspondence + DP oracle",
        "§6 C19",
    ),
    "C09": (
        "PARTIAL, with FULL theorems for: the T1 obligations punct_tables/terminators_punct/backslash_terminates "
        "(every ASCII punctuation character is escapable by the escape rule, by unescapeAll and is Markdown "
        "punctuation, over tables regenerated from the source); unescape_escape (unescapeAll(escapeAll t) = t for "
        "every text and every entity table: titles, destinations, info strings); escape_punct and "
        "text/newline_declines_at_backslash (unit steps); inline_literal (Props/C09b.lean: for every text t "
        "without line feed, every chain text :: mid ++ escape :: post with mid rules declining at a backslash, "
        "every maxNesting >= 1: inline parse + fragments_join + text_join of escapeAll t = exactly one text token "
        "holding t — an induction over the real loop model, with the pending-text invariant LitState); imgChain_literal (Props/C09c.lean): the same for the "
        "eleven-rule inline chain (emphasis, strikethrough, backticks, link, image, autolink, html_inline, entity each on or off) with the real second chain over "
        "all delimiter scopes — the literal loop records no delimiter and closes no scope, and there balance_pairs and both post-processing rules are the identity. MISSING: "
        "texts with line feeds, the numeric-reference encoding and the block contexts are decided by the oracle "
        "(7 contexts x 4 encodings x 2 presets, expected HTML computed from t). Tie: executable inline engine model (text/newline/escape/fragments_join/text_join) vs real "
        "ParserInline under rule subsets/maxNesting; unescapeAll vs real. Known finding D12 (table cell, "
        "backslash before pipe).",
        NOTE + "The html5 entity table is an external parameter.",
        "Lean 4 proof (table obligations by kernel decision, string round trip by induction) + differential inline engine + templated oracle",
        "§6 C09",
    ),
    "C02": (
        "PARTIAL, with FULL theorems for: push_levels (the push discipline keeps level = depth, so every stream "
        "built by pushes is correctly levelled), fragmentsJoin_levels (levels after fragments_join are depths, under "
        "the forced hypothesis that text tokens have nesting 0), joinToks_flat + joinOne_image_children + "
        "joinOpt_flat (after text_join no text_special survives and no two text tokens are adjacent, recursively in "
        "image descriptions), tree_of_balanced (a balanced stream always builds a SyntaxTreeNode; with "
        "C15.tree_roundtrip it flattens back); loop_segs (engine: the tokens a block loop adds are a concatenation "
        "of rule segments at the loop's level, under the segment contract K5) with K5 PROVED for code, fence, hr, "
        "heading, paragraph (Props/C02b.lean), giving the unconditional mini_wellformed for that sub-parser (levelled "
        "from 0, balanced, tree builds; model tied by `miniblock`), and for the container rule blockquote (Props/C02c.lean) "
        "giving q_wellformed with block quotes nested to any depth (tie `qblock`), and for the list rule (Props/C02d.lean: the "
        "token shape of items and lists up to the hidden flags of markTightParagraphs) giving l_wellformed with quotes and lists "
        "nested in each other to any depth (tie `lblock`). The delimiter matching is laminar — pairs_laminar (Props/C02e.lean): "
        "processDelimiters is modelled statement by statement (openersBottom, jumps, headerIdx, rule of 3) and tied call by call to the "
        "real function; for every delimiter array with unset ends, whatever the markers, run lengths and open/close flags, the pairs it "
        "forms are ordered (i < end[i]) and never cross (the invariant gives the jumps array its meaning: a jump from an index outside "
        "every pair never lands strictly inside one). Emphasis is modelled end to end (scanDelims with T1 classification tables, tokenize, "
        "balance_pairs, _postProcess; tie: `inline`) and emini_wellformed (Props/C02f.lean) proves for every source, rule subset with "
        "emphasis on, maxNesting and character classification that the inline stream is levelled from 0, balanced, and builds a tree. "
        "emini_tags_nested (Props/C02g.lean): its opening and closing tokens pair up by tag in stack order (the HTML written for them is "
        "properly nested), from pairs_laminar via nest_of_desc. xmini_wellformed (Props/C02i.lean): the same with autolink (which pushes an opening and a closing token), html_inline and entity in the chain — the loop invariant generalised from 'all tokens have nesting 0' to 'balanced so far, delimiter records point at nesting-0 tokens' — eight of the twelve inline rules. m_wellformed (Props/C02h.lean): the same for the block sub-parser with html_block and lheading (nine of the eleven block rules; tie `mblock`). full_top_wellformed (Props/C02j.lean): the top-level stream MarkdownIt.parse returns end to end on the modelled sub-language is levelled from 0, balanced, ends at depth 0 and SyntaxTreeNode builds (the inline and text_join core rules change nothing of a block token but its children; tie `fullparse`). MISSING: the same through strikethrough's lone-marker swap (modelled, tied, "
        "total — not in the nesting theorems), link/image; and K5 for the remaining block/inline rules (monitored). Both are decided by the oracle: the property's predicate on every stream, recursively, "
        "incl. a bounded-exhaustive delimiter sweep. Known finding K-C02-1 (parseInline wrapper not flagged block, "
        "pinned by a test).",
        NOTE,
        "Lean 4 proof (level invariant of push, flatness of text_join, tree constructibility) + stream predicate oracle",
        "§6 C02",
    ),
    "C01": (
        "PARTIAL (engine level FULL): block_total/block_tokenize_total and inline_total — both tokenizer loops "
        "return normally (no exception, no endless loop; a hang is the value noProgress of the model) for EVERY "
        "rule chain whose rules satisfy the contracts K1-K4 and that contains an always-matching fallback, for every "
        "line table, range and maxNesting; incl. that Python's non-reset `ok` flag is harmless because rules "
        "preserve the level; T1 obligation fallback_rules (paragraph last, text first, both in every preset). "
        "The contracts are stated relative to the loop's call context (CallCtx) and are PROVED for the modelled block "
        "rules code, fence, hr, heading, paragraph (Props/C01b.lean ruleOK_*, paragraph_always), giving the "
        "unconditional mini_total: for every source, every subset of those optional rules and every maxNesting the "
        "modelled parse (normalize, StateBlock line scan, block loop, rules) returns normally; that model is tied to "
        "the real parser by whole-document differential runs under the 16 rule subsets (`miniblock`, 2.5k/60k documents). "
        "The container rule blockquote is modelled too (line-table rewriting, end-of-quote scan with lazy lines and "
        "terminators, nested run, restore) and its contract proved by induction on the nesting budget (Props/C01c.lean), "
        "giving q_total: the sub-parser with block quotes nested to any depth returns normally for every source and "
        "maxNesting (tie: `qblock`, 3k/80k documents). The list rule likewise (markers, item loop, line-table rewrite and "
        "restore, nested runs, empty-item workaround, tight paragraphs; Props/C01d.lean), giving l_total for the sub-parser "
        "code/fence/blockquote/hr/list/heading/paragraph with quotes and lists nested in each other to any depth (tie: "
        "`lblock`, 3.5k/100k documents). On the inline side the contracts are relative to pos < posMax <= len(src) and proved for "
        "text, newline, escape and backticks (closer cache and whole-source search included), giving imini_total for that inline "
        "sub-parser under every rule subset (Props/C01e.lean; tie: `inline`); emini_total (Props/C01f.lean) adds the emphasis rule with "
        "balance_pairs and its post-processing, smini_total the strikethrough rule as well, for every classification of punctuation and white space; "
        "xmini_total (Props/C01g.lean) adds autolink, html_inline and entity, whose regular expressions are translated from the live pattern "
        "objects on every run (harness/gen_regex.py -> MdIt/Generated/Regex.lean, run by Rx.ends in Python's backtracking order; T1 obligations: "
        "none of them matches the empty string, DIGITAL_RE matches only what int() accepts), for every value of the external functions (entity "
        "table, mdurl reformatting, normalizeLinkText, html option): nine of the twelve inline rules (tie: `inlinex` + regex sub-tie `rx`). "
        "link_total (Props/C01i.lean) adds the link rule — ParserInline.skipToken with its position memo, parseLinkLabel, parseLinkDestination, "
        "parseLinkTitle, references, the nested tokenize of the label, delimiter scopes and the second chain over all scopes — under a two-mode "
        "contract (silent and normal calls; every memo entry points forward; the scope stack is restored): ten of the twelve inline rules, for "
        "every source, rule subset, maxNesting, reference table and external functions; the two loops the code runs without a progress test "
        "(tokenize, parseLinkLabel) provably move forward (tie: `inlinel`, 2k/50k strings, 70% of them with links). "
        "full_total (Props/C01k.lean): MarkdownIt.parse end to end on the modelled sub-language — normalize, line scan, block loop with nested containers, "
        "the inline parser on every inline token with its nested runs, the second chain, text_join — returns for every source, rule subsets, html, maxNesting "
        "(lean/MdIt/Pipeline.lean, tie `fullparse`: 2k/60k whole documents, all token fields, children included). "
        "image_total (Props/C01j.lean) adds the image rule, whose match runs the whole inline parser again on the description (a fresh state "
        "at level 0, then the second chain) and stores the result as children — a third open recursion, tied with the same depth budget: "
        "eleven of the twelve inline rules, everything the inline parser can run without the optional linkifier (tie: `inlinei`, 2.5k/60k "
        "strings, two thirds of them with images, a third with several or nested ones). "
        "On the block side m_total (Props/C01h.lean) adds html_block (HTML_SEQUENCES translated from the live pattern objects) and lheading "
        "(setext scan with its terminator chain; the parentType it leaves behind on a miss is modelled): nine of the eleven block rules, any subset, "
        "either value of the html option (tie: `mblock`, 3k/80k documents). "
        "The reference rule is modelled and tied (driver `fullparser`) with K1, K2, K4 and forward progress proved (Props/C16b.lean reference_contract); its K3 upper bound is not, "
        "so the ten-rule chain has no totality theorem. MISSING: for the other rules (table; linkify) the "
        "contracts stay hypotheses, monitored on every "
        "call of every real rule (harness/monitor.py, ~47k rule calls per quick run); renderer/CLI totality "
        "and the CPython stack limit by oracle (time-limited sweeps: random x configurations, bounded-exhaustive "
        "line documents, deep nesting, CLI bytes). Tie: contract monitor + replay of every real ParserBlock.tokenize "
        "call on the Lean loop with recorded rule outcomes.",
        NOTE + "Rule contracts are assumed by the engine theorems and checked at run time.",
        "Lean 4 proof (termination/totality of the dispatch loops under rule contracts) + contract monitoring + crash/hang sweeps",
        "§6 C01",
    ),
    "C03": (
        "PARTIAL (engine level FULL): loop_maps_staged — under the map contract of the rules, for every rule chain, "
        "line table and range, the tokens a block loop adds come in stages with non-empty, in-range, strictly "
        "increasing and pairwise disjoint line ranges inside the loop's own range (maps in range, non-empty, "
        "ordered between siblings); container_map — the end-line patch of a container encloses the nested loop's "
        "stages (maps nest). The map contract is PROVED for code, fence, hr, heading, paragraph (Props/C03b.lean "
        "mapOK_*), giving the unconditional mini_staged for that sub-parser (model tied by the `miniblock` "
        "differential runs); with block quotes (Props/C03c.lean): loop_maps_final (stages end no later than the loop's "
        "final line), mapOK of the quote rule (its tokens lie inside its patched map), q_staged; with lists (Props/C03d.lean): lChain_maps (a list's patched map encloses its items; items have non-empty, increasing, adjacent ranges; an item's map encloses its nested run), l_staged. m_staged (Props/C03e.lean) with html_block and lheading as well (a setext heading's opening token spans content and underline, its inline token the content lines). full_staged (Props/C03f.lean): the same for the stream "
        "MarkdownIt.parse returns end to end on the modelled sub-language — the inline and text_join core rules leave every block token's map alone (tie `fullparse`). "
        "MISSING: for the other rules (table, reference) the map contract is a hypothesis (monitored on every real rule call); "
        "'starts/ends on a non-blank line', inline content lines and coverage of every non-blank line are decided "
        "by the oracle (the property's predicate on streams and env; bounded-exhaustive line documents). Known "
        "finding K-C03-1 (str.strip() drops lines made of Unicode blanks from inline content).",
        NOTE + "Rule contracts assumed by the engine theorem and checked at run time.",
        "Lean 4 proof (staging invariant of the dispatch loop under rule contracts) + contract monitoring + map predicate oracle",
        "§6 C03",
    ),
    "C08": (
        "PARTIAL, with FULL theorems for the mechanisms: cutGo_spec/cutLine_spec (StateBlock.getLines, per line: only "
        "leading blanks or container-prefix characters are removed, everything else unaltered and in order, at most 3 pad "
        "spaces and only after a partially consumed tab — for every line, tShift, bsCount, indent), codespan_spec/"
        "codespan_keeps (line endings to spaces, one space stripped from each side iff both present and not all spaces), "
        "hr_markup (marker repeated exactly as often as it occurs; line = markers and blanks); mini_verbatim (Props/C08b: "
        "in the modelled sub-parser every code_block/fence content is exactly the getLines cuts of the lines of its map, "
        "fence markup+info is the opening line's text, hr markup the scanned run; getLinesB_spec, cutOf_spec); l_verbatim (Props/C08c: "
        "with quotes and lists nested to any depth, every content line of a code_block/fence is, after at most pad spaces, a suffix of "
        "the source line its map points to; fence markup+info is the tail of its opening line; hr markup is read off the tail of its "
        "line); imini_codespans (Props/C08d: in the inline sub-parser text/newline/escape/backticks every code_inline token holds "
        "codeSpanContent of exactly the text between two equal backtick runs of the source, its markup being that run); m_verbatim (Props/C08e: with html_block and lheading in the chain — nine of eleven block rules — every html_block token holds, line for line with its line feed, the lines its map points to with only a prefix removed, and every heading_open's markup is a run of # or the setext underline character); full_verbatim (Props/C08f: the same for the stream MarkdownIt.parse returns end to end — every token of the whole parse is a block token of the block parse with, at most, other children: full_tokens_of_block). MISSING: list/quote markup, list start/info, the exact removed width inside containers: oracle reconstructs every content line from its source line and counts markers. Tie: every real "
        "getLines call, code span and hr traced and compared with the model.",
        NOTE,
        "Lean 4 proof (loop invariant of the indent-stripping scan; string lemmas) + per-call traces + reconstruction oracle",
        "§6 C08",
    ),
    "C10": (
        "PARTIAL, with FULL theorems for: chain_only_enabled/getRules_only_enabled (a disabled rule is in no compiled chain, "
        "main or terminator: never dispatched; after any history by C11), facade_switches (tokenizer and post-processor of a "
        "name are switched together in all four rulers), routes/setOpt_other/dictGet_dictSet (the three option routes are one "
        "assignment on one backing dict), definition_renders_empty; mini_provenance / mini_no_hr / mini_no_code / mini_zero "
        "(Props/C10b: in the modelled sub-parser every token kind comes from an enabled rule, under all 16 rule subsets; "
        "Props/C10c q_provenance/q_no_hr: the same with block quotes nested to any depth; Props/C10d l_provenance/l_no_hr/"
        "l_no_fence: with lists as well); on the inline side xmini_provenance / xmini_switches (Props/C10e.lean): every token of the "
        "modelled inline sub-parser (nine rules, both post-processing rules, fragments_join) is accounted for by an enabled rule — "
        "no code span without backticks, no s/em/strong without strikethrough/emphasis, no link without autolink, no raw HTML without "
        "html_inline and the html option, no text_special without escape or entity — by a generic engine (IAdds: a rule only appends "
        "tokens of its own kind; the loop and the second chain keep any token predicate closed under re-levelling and retyping). "
        "m_provenance / m_no_html / m_no_heading (Props/C10f.lean): nine of the eleven block rules — html_block tokens only with the rule and the html option on. "
        "full_provenance (Props/C10g.lean) is the end-to-end statement for MarkdownIt.parse on the modelled sub-language (lean/MdIt/Pipeline.lean: core chain "
        "normalize -> block -> inline -> text_join over nine of eleven block and eleven of twelve inline rules, tie `fullparse` on whole documents with "
        "children): every top-level token has a type of the enabled block rules' vocabulary and every token below an inline token — at every depth of nested "
        "image descriptions — a type of the enabled inline rules' vocabulary (no image without the image rule, no link_open without link and autolink, no "
        "html_inline without the rule and the html option, ...), via full_types: the deep token engine (C05d imgChain_addsD) for any predicate on type names. "
        "conservative_extension (Props/C10h.lean): two configurations of the eleven-rule inline sub-parser that differ only in which of newline, escape, "
        "backticks, link, image, autolink, html_inline, entity are enabled yield the same token stream on every source holding none of the trigger characters "
        "of the rules they differ in — through label walks, link texts and image descriptions at every depth (a relation between rule chains, Ext, carried "
        "through every engine function under the two-mode contract). strikethrough_conservative (Props/C10i.lean) — the example the property itself gives: for "
        "inputs that do not contain '~~' the token stream of the inline sub-parser is identical with the strikethrough extension on or off (tokenizer rule and "
        "second-chain rule, every nesting depth, every other configuration): the rule is inert without two tildes in a row (scanDelims counts a run of one), "
        "without it no rule ever records a tilde delimiter (an invariant of the delimiter bookkeeping — current list, enclosing scopes, closed scopes — "
        "through every rule and engine function, DInv / keepsI_*), processDelims keeps markers, and strikethrough's post-processing is then the identity. "
        "any_two_configurations (Props/C10j.lean): any two configurations of the ten switchable inline rules (emphasis included) give identical token streams on "
        "every source holding no trigger of a rule enabled in exactly one of them — the conservative-extension clause for the whole inline sub-parser; "
        "full_meta (Props/C10l.lean): store_labels only adds label metadata — at every depth a link_open / image token carries no metadata with the option off and at most one "
        "`label` entry (non-empty label) with it on. full_conservative (Props/C10k.lean) lifts the conservative-extension clause to MarkdownIt.parse on the modelled sub-language: same whole-parse result whenever no inline token's content holds such a trigger. "
        "MISSING: provenance for the remaining rules (table, reference; linkify) and the "
        "conservative-extension clause for the block rules (table: not modelled) is decided by the oracle (token kinds under random rule subsets; "
        "table/strikethrough on vs off on trigger-free inputs; definition options erase to the plain parse, env and HTML equal; "
        "switches issued while a render is in flight). Tie: Ruler/facade/options model of C11/C12 + route requests.",
        NOTE,
        "Lean 4 proof (chain membership, option dict laws) + provenance/extension oracle",
        "§6 C10",
    ),
    "C16": (
        "PARTIAL, with FULL theorems for the env mechanism: record_lookup/first_wins (references only ever extended, from "
        "any env: whatever a label resolved to, it still does), recorded_once (every definition is recorded exactly once, as "
        "first definition or as duplicate), seed_eq_prepend (the bookkeeping of R then D equals that of R ++ D), "
        "normRef_trim (label normalisation ignores surrounding whitespace, for every whitespace predicate and fold). "
        "The reference rule itself is modelled (lean/MdIt/BlockRef.lean: quick scan, continuation scan with its terminator chain, the string parse with its "
        "line counting, title roll-back, references / duplicate_refs, definition token, the parentType it leaves behind on a miss) and tied end to end on "
        "whole documents (driver `fullparser`: tokens, children, and the env entries recorded). Props/C16b.lean: reference_shape / reference_contract (for every "
        "call the loop can make the rule returns — K1 —, a miss leaves state.line, tokens and both tables alone — K2 —, the frame is restored — K4 —, a match "
        "moves state.line forward and records exactly one entry), reference_records_valid; Props/C16c.lean: the two tables are handed on untouched by every "
        "other rule, loop, terminator chain and container (keeps_*, blockLoop_keeps), hence rParse_refsValid / C05.fullR_hrefs for the ten-rule chain; Props/C16d.lean "
        "rParse_first_wins: the table a parse fills holds pairwise distinct labels, none already resolved by the seeded env — the first definition wins, later ones "
        "go to duplicate_refs, a seeded entry is never shadowed (end to end for the block parse, by the same generic invariant engine). Not "
        "proved: the upper bound of K3 (state.line <= lineMax) for this rule — it needs 'no line text holds a line feed', which the engine's call context "
        "does not carry — so totality / well-formedness / staging theorems stay on the nine-rule chains. "
        "MISSING: 'parse(D, env after R) = parse(R+D)' on whole token streams is C07.concat with A := R, and reference "
        "form == inline form needs the link rules: both decided by the oracle (HTML of seeded vs prepended under fresh/"
        "seeded/seeded-twice histories; (text,dest,title) grid; label variants). Case folding is interpreter behaviour: a "
        "parameter, its idempotence checked exhaustively each run. Tie: definitions found by each parse (definition tokens) "
        "fed to the model per env history; model env must equal real env.",
        NOTE + "str.strip / \\s / str.lower().upper() are parameters of the model.",
        "Lean 4 proof (monotone env invariant over definition sequences) + env-history correspondence + oracle",
        "§6 C16",
    ),
    "C18": (
        "PARTIAL, with FULL theorems on the renderer model for the option clauses: xhtml_local (toggling xhtmlOut changes "
        "only the slash flag of tag pieces, for every stream), breaks_local + softbreak_as_hardbreak, langPrefix_local, "
        "alt_independent; the parser model has no renderer option in its type. On the end-to-end model (lean/MdIt/Pipeline.lean, ties `fullparse`, "
        "`fullrender`, `parseinline`) full_inline_local and inline_same_as_parseInline (Props/C18b.lean): every inline token of a whole parse carries, as "
        "children, a function of its own content, the configuration and the env alone — the same children parseInline gives that text — so nothing of "
        "the block context (level, container, neighbours) enters. MISSING: that the block rules hand the inline parser exactly the text is tied, not "
        "proved, for table cells; the clauses are also decided by the oracle (single-paragraph inputs; 5 contexts; token streams under all 16 option "
        "combinations; HTML under each combination equals the baseline after the documented local change). Tie: renderer "
        "model vs real renderer (shared with C04) + option keys read during parse recorded by a logging OptionsDict.",
        NOTE,
        "Lean 4 proof (locality of renderer options on the piece model) + differential rendering + option-read audit",
        "§6 C18",
    ),
    "C06": (
        "PARTIAL: PROVED for the modelled sub-parser (normalize, line scan, block loop, rules code, fence, blockquote, hr, list, "
        "heading, paragraph with their terminator chains and nested runs; tied to the real parser by the qblock / lblock differential "
        "checks): C06c.quote_law (chains without lists) and C06d.l_quote_law (with lists: quotes and lists nested in each other, tight and "
        "loose, ordered with start numbers, empty items, markTightParagraphs) — for every tab-free document D given by its lines, every subset of the optional rules, "
        "every maxNesting >= 0: prefixing every line with '> ' ('>' for an empty line) parses, with maxNesting+1, to exactly "
        "one block quote over all lines whose content is the token stream of D one level deeper with the same maps "
        "(unbounded: by the simulation of C06b — bsCount-independence on tab-free line tables, level/maxNesting shift — "
        "over all rules, the loop and nested runs; Props/C07b-c for the list rule). C06h.list_law (the list-indent half, by a third "
        "simulation with a column shift, Props/C06e-g): for every tab-free D without '>' whose first line starts with a non-blank, every "
        "marker (* - +, 1-9 digits and ) or .), 1-4 spaces: unless the combined first line is a thematic break, marker + spaces before "
        "the first line and as many spaces before every other line parse, with maxNesting+2, to one list with one item over all "
        "lines whose content is the stream of D two levels deeper, up to the hidden flag ('>' excluded: the lazy-continuation "
        "exception the property names, shown real by a decided example). Also lemma A quote_strip and lemma D nested_loop_frame. MISSING: the "
        "list law with block quotes inside D or unindented blank lines, rules outside the sub-parser, tabs, the same-maxNesting form: decided by the oracle, which applies both "
        "laws to the implementation on generated documents, repeatedly to depth 6, all marker shapes. Known finding K-C06-1 "
        "(HTML blocks with a blank line are cut inside list items). Tie: per-line records of the live block-quote rule vs "
        "quoteOffsets; modelled sub-parsers vs the real parser on generated and quoted documents.",
        NOTE,
        "Lean 4 proof (quote law and list-indent law of the modelled sub-parser by simulation; marker-stripping lemma) + differential tie + container-law oracle",
        "§6 C06",
    ),
    "C07": (
        "PARTIAL (engine level FULL): frame — under the rule contracts the block loop, whatever happens inside its blocks "
        "and containers, returns with the line tables, lineMax, blkIndent and level of its entry state (no indentation "
        "bookkeeping leaks into the next block); stages — blocks are emitted with increasing, disjoint line ranges. "
        "The suffix half of the law is a theorem for the modelled sub-parser code, fence, blockquote, hr, list, heading, paragraph "
        "(Props/C07b.lean suffix_shift, concat_law for the chains with quotes; Props/C07c.lean l_suffix_shift, l_concat_law with lists; "
        "models tied by the qblock / lblock differential checks): once the top-level loop stands at the first line of a tab-free "
        "B, n lines into the table — whatever those lines contain, whatever tokens, tight, parentType and hasEmptyLines the earlier "
        "blocks left behind — it appends exactly the stream of B parsed alone, every map shifted by n (a simulation with a line "
        "shift through every rule, the terminator chains, the loop and the nested runs, for every rule subset and maxNesting). "
        "MISSING: the prefix half (that the loop comes to stand at B's first line: look-ahead locality per rule) and the "
        "rules outside the sub-parser; decided by the oracle on pairs (A, B) incl. targeted B-blocks whose parse depends on what "
        "precedes them. Tie: contract monitor on every real rule call + replay of real block loops on the Lean loop + qblock.",
        NOTE + "Rule contracts assumed by the engine theorems and checked at run time.",
        "Lean 4 proof (frame invariant of the dispatch loop under rule contracts; line-shift simulation of the modelled sub-parser) + contract monitoring + concatenation oracle",
        "§6 C07",
    ),
    "C20": (
        "PARTIAL: the guard mechanisms are theorems — depth_guard_block/depth_guard_inline (at level >= maxNesting no rule "
        "is dispatched: nesting beyond the limit is cut, not recursed into), block_dispatch_bound/block_dispatch_linear (a "
        "block loop dispatches at most one chain per line of its range), skip_memo/skip_evals_le (skipToken evaluates the "
        "chain at most once per position). NOT PROVED (kept visible as C20.Statement): the global bound 'work <= c*|src| on "
        "every family' — the amortised analysis of processDelimiters, parseLinkLabel, the backtick cache and the reference "
        "rule is out of reach; it is decided by measurement on the implementation: executed source lines + calls inside "
        "markdown_it (sys.settrace; calls only for the nesting families, at 5x length) for ~55 families at L, 2L, 4L on both "
        "presets; per-character work may grow by at most 17.5 % per doubling. Known findings D9 (reference definitions) and "
        "K-C20-2 (smartquotes opener stack). Tie: dispatch counts of real block loops and the real skipToken cache.",
        NOTE + "The measured work depends on CPython's line-event granularity; thresholds are ratios, not absolute counts.",
        "Lean 4 proof of the guards (cost-instrumented loop, memo table) + measured growth ratios on the implementation",
        "§6 C20",
    ),
}

PENDING_REASON = "check under construction in this session (Lean model + theorems not yet committed); not claimed until its check exists"

ALL = [f"C{i:02d}" for i in range(1, 21)]


def main() -> None:
    checks = []
    for pid in ALL:
        if pid not in CLAIMS:
            continue
        text, note, tech, ref = CLAIMS[pid]
        checks.append({
            "property_id": pid,
            "quick_cmd": f"./check {pid} --tier quick",
            "thorough_cmd": f"./check {pid} --tier thorough",
            "evidence_file": f"evidence/{pid}.json",
            "replay_cmd_template": f"./check {pid} --replay {{path}}",
            "engine": "lean4-model+correspondence",
            "level_claimed": {"category": "proof", "text": text, "design_ref": ref},
            "level_note": note,
            "technique": tech,
        })
    man = {
        "version": 1,
        "setup_cmd": "/venv/bin/python -m harness.gen_tables && cd lean && lake build",
        "hooks": {
            "guard": "MARKDOWN_IT_PY_VERIF",
            "enable": "no source hooks are needed: the harness instruments the real code in-process (Ruler API, sys.monitoring, sys.setprofile, monkey-patching inside the harness process)",
            "baseline_off_cmd": "cd /repo && /venv/bin/python -m pytest -q -p no:cacheprovider --timeout=900 --continue-on-collection-errors",
            "source_commits": [],
            "add_only": True,
        },
        "engines": [{
            "name": "lean4-model+correspondence",
            "path": "lean/ (model, proofs, driver) + harness/ (T1 gen_tables.py, T2 per-property harness) + check",
            "serves_properties": sorted(CLAIMS),
            "kind_free_text": "machine-checked proof in Lean 4 about a hand-written executable model; model tied to /repo on every run by regenerated tables and differential correspondence",
        }],
        "checks": checks,
        "notes": "Genuine defects repaired by 'fix:' commits in /repo and known findings: known_findings.json. See DESIGN.md.",
        "not_applicable": [{"property_id": p, "reason": PENDING_REASON} for p in ALL if p not in CLAIMS],
    }
    (ROOT / "MANIFEST.json").write_text(json.dumps(man, indent=1))


if __name__ == "__main__":
    main()
