"""C03 — source maps are in range, non-empty, nested and ordered, and cover the input.

Proof: lean/MdIt/Props/C03.lean — loop_maps_staged (engine level: under the map contract of the
rules, the tokens a block loop adds come in stages with strictly increasing, in-range, disjoint line
ranges, each inside the loop's own range), container_map (the end-line patch of containers encloses
the nested loop's stages), lines_count (the number of lines of the normalised input).
Tie: the map contract is monitored on every real rule call (harness/monitor.py, K5); the loop replay
of C01 ties the dispatch lines.
Oracle: the property's predicate on every token stream and env (maps in range, start on a non-blank
line, nested in the enclosing container, ordered w.r.t. the previous sibling, non-blank last line
for paragraph/heading/hr/code_block/tr, inline content lines occur in their source lines, every
non-blank line covered by a top-level map or a recorded definition).
"""
from __future__ import annotations

import re

from .common import Ctx, Driver, Finding
from . import gens, monitor

RULE = (
    "documents (G-doc incl. tabs/CRLF/trap characters, spec/fixture mutations, bounded-exhaustive 2-line documents "
    "over the line-shape catalogue) x block-rule configurations (presets, table on, code off, random subsets); "
    "a case is (document, configuration); non-trivial = at least two block tokens with maps, one of them nested; "
    "distinct by case."
)


def norm(s):
    return re.sub(r"\r\n?", "\n", s).replace("\x00", "\ufffd")


UWS = "\x0b\x0c\x1c\x1d\x1e\x1f\x85\xa0\u1680\u2000\u2001\u2002\u2003\u2004\u2005\u2006\u2007\u2008\u2009\u200a\u2028\u2029\u202f\u205f\u3000"


def check(md, src):
    env = {}
    toks = md.parse(src, env)
    s = norm(src)
    lines = s.split("\n")
    if lines and lines[-1] == "":
        lines = lines[:-1]
    n = len(lines)
    blank = [ln.strip(" \t") == "" for ln in lines]
    stack = []
    prev_end = {0: 0}
    depth = 0
    in_cell = False
    for t in toks:
        if t.type in ("th_open", "td_open"):
            in_cell = True          # cell text is cut out of the row and unescaped (\|): not a verbatim line
        elif t.type in ("th_close", "td_close"):
            in_cell = False
        if t.nesting == -1:
            stack.pop()
            depth -= 1
        if t.map is not None:
            b, e = t.map
            if not (0 <= b < e <= n):
                return ("range", t.type, t.map, n)
            if blank[b]:
                return ("blank-start", t.type, t.map)
            enc = next((m for m in reversed(stack) if m is not None), None)
            if enc is not None and not (enc[0] <= b and e <= enc[1]):
                return ("not-nested", t.type, t.map, enc)
            if t.nesting >= 0 and t.type != "inline":
                pe = prev_end.get(depth, 0)
                if b < pe:
                    return ("order", t.type, t.map, pe)
                prev_end[depth] = e
            if t.type in ("paragraph_open", "heading_open", "hr", "code_block", "tr_open") and blank[e - 1]:
                return ("blank-end", t.type, t.map)
            if t.type == "inline" and not in_cell:
                cl = t.content.split("\n")
                if len(cl) != e - b:
                    # str.strip() also eats lines made only of Unicode blanks (known finding K-C03-1)
                    edge = [lines[b], lines[e - 1]]
                    if any(any(ch in UWS for ch in x) for x in edge):
                        return ("inline-lines-unicode-blank", t.map, len(cl))
                    return ("inline-line-count", t.map, len(cl))
                if len(cl) == e - b:
                    for i, c in enumerate(cl):
                        if c.strip() and c.strip() not in lines[b + i].replace("\ufffd", "\ufffd"):
                            return ("inline-line-content", t.map, i, c)
        if t.nesting == 1:
            stack.append(tuple(t.map) if t.map else None)
            depth += 1
            prev_end[depth] = t.map[0] if t.map else prev_end.get(depth - 1, 0)
    covered = set()
    for t in toks:
        if t.level == 0 and t.map:
            covered.update(range(*t.map))
    for v in env.get("references", {}).values():
        if "map" in v:
            covered.update(range(*v["map"]))
    for d in env.get("duplicate_refs", []):
        if "map" in d:
            covered.update(range(*d["map"]))
    for i in range(n):
        if not blank[i] and i not in covered:
            return ("uncovered", i, lines[i])
    return None


def run(ctx: Ctx) -> None:
    from markdown_it import MarkdownIt

    quick = ctx.quick()
    rng = ctx.rng
    cfgs = [gens.FIXED_CFGS[0], gens.FIXED_CFGS[1], gens.FIXED_CFGS[4], gens.FIXED_CFGS[5], gens.FIXED_CFGS[6], gens.FIXED_CFGS[7]]
    mds = [(gens.make_md(c), c) for c in cfgs]
    n = 3000 if quick else 80000
    import itertools as _it
    corpus = ["a\n\x85\n", "\x1f\nb\n"]                # known finding K-C03-1 (always exercised)
    for i, src in enumerate(_it.chain(corpus, gens.doc_stream(rng, n, 8))):
        if i % 5 == 0:
            cfg = gens.rand_cfg(rng)
            try:
                md = gens.make_md(cfg)
            except Exception:
                continue
            act = md.get_active_rules()
            if "paragraph" not in act["block"] or not {"normalize", "block", "inline"} <= set(act["core"]) or "text" not in act["inline"]:
                continue
            if md.options.get("linkify") and "linkify" in act["core"]:
                continue
        else:
            md, cfg = mds[i % len(mds)]
        try:
            e = check(md, src)
        except Exception:
            continue  # totality is C01
        ctx.count((src, gens.cfg_key(cfg)), nontrivial=src.count("\n") >= 2 and any(c in src for c in ">-*#`1"))
        if e:
            ctx.fail("map:" + e[0], f"source map property violated: {e}", {"input": src, "cfg": cfg, "detail": [repr(x) for x in e]})
        elif len(ctx.samples) < 3 and src.count("\n") > 2:
            ctx.sample({"input": src[:80], "maps": [(t.type, t.map) for t in md.parse(src) if t.map][:8]})
    # documents at scale: limits and counters that only large inputs reach (the table rule counts cells; lists count items)
    mdt = MarkdownIt("commonmark").enable("table")
    for name, src in gens.scale_docs(quick):
        try:
            e = check(mdt, src)
        except Exception:
            continue
        ctx.count(("scale", name), nontrivial=True)
        if e:
            ctx.fail("map:" + e[0], f"source map property violated on a large document ({name}): {e}",
                     {"input": src, "cfg": {"preset": "commonmark", "options": {}, "enable": ["table"], "disable": []}, "detail": [repr(x) for x in e][:6]})
    # bounded-exhaustive two-line (thorough: three-line) documents
    shapes = gens.LINE_SHAPES if quick else gens.LINE_SHAPES_EXT
    kmax = 2 if quick else 3
    nl = 0
    for k in range(1, kmax + 1):
        if k == 3:
            shapes = gens.LINE_SHAPES
        for src in gens.line_docs(k, shapes):
            for md, cfg in mds[:3]:
                nl += 1
                try:
                    e = check(md, src)
                except Exception:
                    continue
                if e:
                    ctx.fail("map:" + e[0], f"source map property violated: {e}", {"input": src, "cfg": cfg, "detail": [repr(x) for x in e]})
        if len(ctx.findings) > 30:
            break
    ctx.evaluations += nl
    ctx.cov["line_documents_runs"] = nl
    # tie: map contract of the rules (monitor) on a sample
    mon = monitor.Monitor()
    mmds = []
    for c in cfgs[:4]:
        m = gens.make_md(c)
        monitor.instrument(m, mon, record_loops=False)
        mmds.append(m)
    for i, src in enumerate(gens.doc_stream(rng, 600 if quick else 10000, 8)):
        try:
            mmds[i % len(mmds)].parse(src)
        except Exception:
            pass
    ctx.corr_compared += mon.calls
    for v in mon.violations[:10]:
        if v["what"].startswith(("K5", "K3")):
            ctx.mismatch("rule contract violated on the implementation: " + v["what"], {k: (w if not isinstance(w, str) else w[:400]) for k, w in v.items()})
    ctx.cov["rule_calls_monitored"] = mon.calls
    # tie of the modelled block sub-parser (mini_staged is a theorem about exactly this model)
    from . import miniblock
    from .common import Driver
    drv = Driver()
    try:
        miniblock.tie_all(ctx, drv, quick)
        from . import pipeline
        pipeline.tie_full(ctx, drv, 2000 if quick else 50000, ref=True)      # maps of definitions and of everything after them
        pipeline.tie_full(ctx, drv, 2000 if quick else 50000, table=True)     # all eleven block rules: the table rule in the main chain and as a terminator (driver `fullparset`)
    finally:
        drv.close()
    ctx.partial += [
        "the per-rule map contract (every token a rule pushes at its own level has a map inside [startLine, state.line)) is "
        "a hypothesis of the engine theorem; it is PROVED (Props/C03b.lean: mapOK_*) for code, fence, hr, heading and "
        "paragraph, giving the unconditional theorem mini_staged for that sub-parser (model tied by the `miniblock` "
        "differential runs), and for the container rule blockquote (Props/C03c.lean: loop_line_ge, loop_maps_final — stages end "
        "no later than the loop's final line, so the quote's patched map encloses its content — qChain_maps, q_staged; tie "
        "`qblock`), and for the list rule (Props/C03d.lean: lChain_maps — the list's patched map encloses its items, items have "
        "non-empty, increasing, adjacent ranges, an item's map encloses its nested run — l_staged; tie `lblock`); for the other rules it is monitored on every real rule call; 'starts on a non-blank line', 'ends on a "
        "non-blank line', inline content lines and coverage are decided by the oracle",
    ]


def search(ctx: Ctx):
    c = Ctx(ctx.pid, "quick", ctx.seed + 17)
    mds = [(gens.make_md(cf), cf) for cf in (gens.FIXED_CFGS[0], gens.FIXED_CFGS[1], gens.FIXED_CFGS[4])]
    for k in (1, 2):
        for src in gens.line_docs(k, gens.LINE_SHAPES_EXT if k == 1 else gens.LINE_SHAPES):
            for md, cfg in mds:
                try:
                    e = check(md, src)
                except Exception:
                    continue
                if e:
                    return Finding("map:" + e[0], f"source map property violated: {e}", {"input": src, "cfg": cfg})
    for src in gens.doc_stream(c.rng, 20000, 8):
        for md, cfg in mds:
            try:
                e = check(md, src)
            except Exception:
                continue
            if e:
                return Finding("map:" + e[0], f"source map property violated: {e}", {"input": src, "cfg": cfg})
    return None


def replay(ctx: Ctx, obj: dict) -> bool:
    if "input" in obj and "cfg" in obj:
        return check(gens.make_md(obj["cfg"]), obj["input"]) is None
    return True
