"""C10 — rule and option switches have exactly their documented effect.

Proof: lean/MdIt/Props/C10.lean — chain_only_enabled / getRules_only_enabled (a disabled rule is in no
compiled chain: never dispatched, neither directly nor as a terminator), facade_switches (the façade
switches tokenizer and post-processor of a name together), routes / setOpt_other / dictGet_dictSet
(the three option routes are one assignment on one backing dict), definition_renders_empty.
Tie: Ruler/façade/option correspondence of C11/C12 (same model); here additionally the three option
routes on a live instance against the model (driver `world`).
Oracle: (a) provenance — token kinds under random rule subsets of every preset are produced by an
enabled rule; zero preset gives only paragraph/inline/text; no html tokens with html off; (b)
conservative extensions — without '|' the stream is identical with table on/off, without '~~' with
strikethrough on/off; (c) inline_definitions/store_labels only add definition tokens and label meta,
env and HTML (up to newlines after tags) unchanged; option routes indistinguishable.
"""
from __future__ import annotations

import itertools
import re

from .common import Ctx, Driver, Finding, enc
from . import gens

RULE = (
    "documents (G-doc, delimiter runs, spec/fixture mutations) x random rule subsets from each preset (keeping the "
    "supported core) x option values; trigger-free inputs for the extension clause; a case is (document, "
    "configuration); non-trivial = at least one optional rule disabled and the document contains a construct of a "
    "disabled rule, or an extension toggled; distinct by case."
)

# token type -> rules any of which must be enabled (block rule, or inline rule + its rules2 twin)
PRODUCERS = {
    "table_open": ["table"], "thead_open": ["table"], "tbody_open": ["table"], "tr_open": ["table"], "th_open": ["table"],
    "td_open": ["table"], "code_block": ["code"], "fence": ["fence"], "blockquote_open": ["blockquote"], "hr": ["hr"],
    "bullet_list_open": ["list"], "ordered_list_open": ["list"], "list_item_open": ["list"], "html_block": ["html_block"],
    "heading_open": ["heading", "lheading"], "definition": ["reference"], "em_open": ["emphasis"], "strong_open": ["emphasis"],
    "s_open": ["strikethrough"], "link_open": ["link", "autolink", "linkify"], "image": ["image"], "code_inline": ["backticks"],
    "html_inline": ["html_inline"], "softbreak": ["newline"], "hardbreak": ["newline", "escape"], "paragraph_open": ["paragraph"],
}


def kinds(tokens):
    out = set()
    for t in tokens:
        out.add(t.type)
        if t.children:
            out |= kinds(t.children)
    return out


def td(md, s):
    env = {}
    return [t.as_dict() for t in md.parse(s, env)], env


def erase(ts):
    out = []
    for t in ts:
        if t["type"] == "definition":
            continue
        t = dict(t)
        t["meta"] = {}
        if t.get("children"):
            t["children"] = erase(t["children"])
        out.append(t)
    return out


NEAR_ATOMS = ["abc", "def", "---", ":-:", "--:", ":--", "- -", "2. item", "7) x", "-", "*", "1.", "# h", "> q", "    ind", "", "===", "- li", "1. one", "<div>", "```"]
NEAR_WRAPS = [("", ""), ("> ", "> "), ("- ", "  "), ("1. ", "   "), ("> ", "")]


def near_table_docs(quick: bool):
    """pipe-free documents around delimiter-row-shaped lines: bounded-exhaustive over short line sequences, bare and in containers"""
    import itertools

    for L in ((1, 2, 3) if quick else (1, 2, 3, 4)):
        for combo in itertools.product(NEAR_ATOMS if L < 4 else NEAR_ATOMS[:14], repeat=L):
            for first, cont in (NEAR_WRAPS if L < 3 or not quick else NEAR_WRAPS[:3]):
                yield "\n".join((first if j == 0 else cont) + x for j, x in enumerate(combo)) + "\n"


def run(ctx: Ctx) -> None:
    from markdown_it import MarkdownIt

    quick = ctx.quick()
    rng = ctx.rng
    n = 1500 if quick else 40000
    cm, cmt, cms = MarkdownIt(), MarkdownIt().enable("table"), MarkdownIt().enable("strikethrough")
    js, jsnt, jsns = MarkdownIt("js-default"), MarkdownIt("js-default").disable("table"), MarkdownIt("js-default").disable("strikethrough")
    zero = MarkdownIt("zero")
    defs = MarkdownIt("commonmark", {"inline_definitions": True, "store_labels": True})
    defsjs = MarkdownIt("js-default", {"inline_definitions": True, "store_labels": True})
    for i, D in enumerate(gens.doc_stream(rng, n, 7)):
        try:
            # (a) provenance under a random configuration
            cfg = gens.rand_cfg(rng)
            md = gens.make_md(cfg)
            act = md.get_active_rules()
            if ("paragraph" in act["block"] and "text" in act["inline"] and {"normalize", "block", "inline", "text_join"} <= set(act["core"])
                    and not (md.options.get("linkify") and "linkify" in act["core"])):
                ks = kinds(md.parse(D))
                enabled = set(act["block"]) | set(act["inline"]) | set(act["core"])
                nontriv = False
                for k in ks:
                    need = PRODUCERS.get(k)
                    if need is None:
                        continue
                    if k in ("em_open", "strong_open", "s_open"):
                        ok = any(r in act["inline"] and r in act["inline2"] for r in need)
                    else:
                        ok = any(r in enabled for r in need)
                    if k in ("html_block", "html_inline") and not md.options["html"]:
                        ok = False
                    if not ok:
                        ctx.fail("provenance", f"token kind {k} appears although none of its producing rules {need} is enabled"
                                 + (" / html is off" if k.startswith("html") else ""), {"input": D, "cfg": cfg, "kind_": k})
                nontriv = bool(cfg["disable"]) and any(c in D for c in "#>-*`[<|_~")
                ctx.count((D, gens.cfg_key(cfg)), nontrivial=nontriv)
            zk = kinds(zero.parse(D)) - {"paragraph_open", "paragraph_close", "inline", "text"}
            if zk:
                ctx.fail("provenance", f"zero preset produced token kinds {sorted(zk)}", {"input": D, "cfg": gens.FIXED_CFGS[2]})
            # (b) conservative extensions
            if "|" not in D:
                if td(cm, D) != td(cmt, D):
                    ctx.fail("extension-not-conservative", "enabling table changes the parse of a document without '|'", {"input": D, "ext": "table", "preset": "commonmark"})
                if td(js, D) != td(jsnt, D):
                    ctx.fail("extension-not-conservative", "table on/off differs on a document without '|'", {"input": D, "ext": "table", "preset": "js-default"})
            if "~~" not in D:
                if td(cm, D) != td(cms, D):
                    ctx.fail("extension-not-conservative", "enabling strikethrough changes the parse of a document without '~~'", {"input": D, "ext": "strikethrough", "preset": "commonmark"})
                if td(js, D) != td(jsns, D):
                    ctx.fail("extension-not-conservative", "strikethrough on/off differs on a document without '~~'", {"input": D, "ext": "strikethrough", "preset": "js-default"})
            # (c) definition options
            for plain, d_ in ((cm, defs), (js, defsjs)):
                a, ea = td(plain, D)
                b, eb = td(d_, D)
                if erase(b) != erase(a):
                    ctx.fail("defs-options", "inline_definitions/store_labels changed tokens other than adding definition tokens / label meta", {"input": D})
                elif ea != eb:
                    ctx.fail("defs-options", "inline_definitions/store_labels changed env", {"input": D})
                else:
                    ha, hb = plain.render(D), d_.render(D)
                    if re.sub(r">\n+", ">", ha) != re.sub(r">\n+", ">", hb):
                        ctx.fail("defs-options", "inline_definitions/store_labels changed the rendered HTML beyond line breaks after a tag",
                                 {"input": D, "plain": ha[:300], "with_defs": hb[:300]})
        except Exception:
            continue
        if len(ctx.samples) < 2 and "[" in D and ":" in D:
            ctx.sample({"input": D[:80]})
    # (b') near-table documents without '|': lines shaped like a delimiter row (`---`, `:-:` …) below text, followed by lines whose
    # reading depends on state the table rule could leave behind (list markers that may not interrupt a paragraph, setext underlines,
    # indented continuations), bare and inside containers — bounded-exhaustive over short line sequences (seeded change C10l: the rule
    # declines late and leaves `parentType` changed)
    near = 0
    for D in near_table_docs(quick):
        near += 1
        try:
            if td(cm, D) != td(cmt, D):
                ctx.fail("extension-not-conservative", "enabling table changes the parse of a document without '|'", {"input": D, "ext": "table", "preset": "commonmark"})
            if td(js, D) != td(jsnt, D):
                ctx.fail("extension-not-conservative", "table on/off differs on a document without '|'", {"input": D, "ext": "table", "preset": "js-default"})
        except Exception:
            continue
        if near % 16 == 0:
            ctx.count(("near-table", D), nontrivial=True)
    ctx.cov["near_table_family"] = {"documents": near, "line_atoms": len(NEAR_ATOMS), "max_lines": 3 if quick else 4}
    # switches applied while a parse is in flight (lazy `names` iterable that renders while being consumed):
    # afterwards the reported configuration is the one in force
    probe = "*a* ~~s~~ `c` [l](u)\n\n|a|b|\n|-|-|\n\n> q\n\n- i\n\n# h\n"
    for preset in ("commonmark", "js-default"):
        for names in (["emphasis", "table"], ["backticks", "blockquote"], ["link", "list", "heading"], ["strikethrough"]):
            md = MarkdownIt(preset)
            md.render(probe)

            class Lazy:
                """re-iterable `names` whose iteration renders on the same instance"""

                def __init__(self, ns, md):
                    self.ns, self.md = ns, md

                def __iter__(self):
                    for n_ in self.ns:
                        self.md.render(probe)
                        yield n_
            md.disable(Lazy(names, md), True)
            act = md.get_active_rules()
            enabled = set(act["block"]) | set(act["inline"]) | set(act["core"])
            ks = kinds(md.parse(probe))
            ctx.count(("lazy-disable", preset, tuple(names)), nontrivial=True)
            for k in ks:
                need = PRODUCERS.get(k)
                if need and not any(r in enabled for r in need):
                    ctx.fail("provenance", f"after disable({names}) issued while a render was in flight, token kind {k} still appears",
                             {"input": probe, "preset": preset, "disabled": names, "kind_": k})
    # option routes
    drv = Driver()
    try:
        from .c12 import OPT_CHOICES, ATTR_ROUTE, enc_val, enc_inst
        lines, impl = [], []
        base_opts = {p_: dict(MarkdownIt(p_).options) for p_ in ("commonmark", "js-default", "zero")}
        for _ in range(200 if quick else 3000):
            preset = rng.choice(["commonmark", "js-default", "zero"])
            key, vs = rng.choice(OPT_CHOICES)
            v = rng.choice(vs)
            m1 = MarkdownIt(preset, {key: v})
            m2 = MarkdownIt(preset)
            if dict(m2.options) != base_opts[preset]:
                d_ = {k_: (base_opts[preset].get(k_), w_) for k_, w_ in dict(m2.options).items() if base_opts[preset].get(k_) != w_}
                ctx.fail("option-routes", f"constructing MarkdownIt({preset!r}, {{{key!r}: {v!r}}}) changed what a later plain MarkdownIt({preset!r}) gets: {d_}",
                         {"option": key, "value": repr(v), "preset": preset, "leaked": {k_: repr(w_) for k_, w_ in d_.items()}})
                base_opts[preset] = dict(m2.options)
            m2.options[key] = v
            outs = [enc_inst(m1), enc_inst(m2)]
            reqs = [f"world new:{enc(preset)}:{enc(key)}={enc_val(v)} q:0", f"world new:{enc(preset)}:~ set:0:item:{enc(key)}:{enc_val(v)} q:0"]
            if key in ATTR_ROUTE:
                m3 = MarkdownIt(preset)
                setattr(m3.options, key, v)
                outs.append(enc_inst(m3))
                reqs.append(f"world new:{enc(preset)}:~ set:0:attr:{enc(key)}:{enc_val(v)} q:0")
                if getattr(m3.options, key) != v or m3.options[key] != v:
                    ctx.fail("option-routes", f"attribute and item access disagree for option {key}", {"option": key, "value": repr(v)})
            if len(set(outs)) != 1:
                ctx.fail("option-routes", f"the public routes of setting option {key} are distinguishable", {"option": key, "value": repr(v), "preset": preset})
            probe = "# a *b* \"q\"\n\n```x\n<b>\n```\n\n<i>\n"
            rs = {m.render(probe) for m in ([m1, m2] + ([m3] if key in ATTR_ROUTE else []))}
            if len(rs) != 1:
                ctx.fail("option-routes", f"instances configured through different routes render differently ({key})", {"option": key, "value": repr(v), "preset": preset})
            ctx.count(("routes", preset, key, repr(v)), nontrivial=True)
            for r_, o_ in zip(reqs, outs):
                lines.append(r_)
                impl.append("u " * (len(r_.split()) - 2) + o_)
        got = drv.batch(lines)
        for ln, a, b in zip(lines, impl, got):
            ctx.corr_compared += 1
            if a.strip() != b.strip():
                ctx.mismatch("option routes: implementation and model differ", {"request": ln, "impl": a[-300:], "model": b[-300:]})
        # tie of the modelled block sub-parser (mini_provenance is a theorem about exactly this model)
        from . import miniblock
        miniblock.tie_all(ctx, drv, quick)
        from . import rxtie
        rxtie.tie_leaf(ctx, drv, quick)      # translated regular expressions + inline leaf rules (autolink, html_inline, entity)
        from . import pipeline
        pipeline.tie_full(ctx, drv, 2000 if quick else 60000)     # MarkdownIt.parse end to end on the modelled sub-language
        pipeline.tie_full(ctx, drv, 2500 if quick else 60000, table=True)     # all eleven block rules: the table rule in the main chain and as a terminator (driver `fullparset`)
    finally:
        drv.close()
    ctx.partial += [
        "provenance (a token kind appears only if one of its producing rules is enabled) is PROVED for the modelled block chains up to "
        "ten of eleven rules incl. `table` (`reference` off: its K3 bound is not proved) — Props/C10b-d,f,n: mini/q/l/m/t_provenance, "
        "t_no_table — and end to end with the inline rules (Props/C10g, C10o: full_provenance, fullT_provenance); for the eleven-rule chain "
        "with `reference` on it rests on the ties (`fullparser`, `fullparset`) and the oracle",
        "conservative extension: PROVED for the inline side (Props/C10h-k: any two configurations of the ten switchable inline rules; "
        "strikethrough without `~~`); for tables, PROVED: on a source without `|` the table rule, switched on, produces no table token at "
        "any depth (Props/C10q-r: t_pipe_free_no_table, fullT_pipe_free_no_table) and a declining rule leaves the state untouched "
        "(Props/C10m); NOT PROVED: that the rest of the stream is then identical with the rule off (needs a relation between two runs "
        "through the block loop and both containers) — decided by the oracle (generator documents and the bounded-exhaustive near-table "
        "family, table on vs off under both presets) and by the `fullparset` tie with the rule on and off",
        "inline_definitions / store_labels: store_labels PROVED on the model (Props/C10l full_meta); inline_definitions by the oracle",
    ]


def search(ctx: Ctx):
    from markdown_it import MarkdownIt

    c = Ctx(ctx.pid, "quick", ctx.seed + 23)
    cm, cmt, cms = MarkdownIt(), MarkdownIt().enable("table"), MarkdownIt().enable("strikethrough")
    for D in itertools.chain(near_table_docs(True), gens.doc_stream(c.rng, 6000, 6)):
        try:
            if "|" not in D and td(cm, D) != td(cmt, D):
                return Finding("extension-not-conservative", "table changes a document without '|'", {"input": D, "ext": "table", "preset": "commonmark"})
            if "~~" not in D and td(cm, D) != td(cms, D):
                return Finding("extension-not-conservative", "strikethrough changes a document without '~~'", {"input": D, "ext": "strikethrough", "preset": "commonmark"})
        except Exception:
            pass
    return None


def replay(ctx: Ctx, obj: dict) -> bool:
    from markdown_it import MarkdownIt

    if obj.get("kind") == "extension-not-conservative":
        a = MarkdownIt(obj["preset"])
        b = MarkdownIt(obj["preset"])
        a.enable(obj["ext"])
        b.disable(obj["ext"])
        return td(a, obj["input"]) == td(b, obj["input"])
    return True
