"""C05 — emitted link and image URLs are normalised and never carry a dangerous scheme.

Proof: lean/MdIt/Props/C05.lean — encode_range (mdurl.encode emits only URL-safe ASCII, for every
input), validate_sound / api (an accepted URL-safe string, read the way a browser reads it, has none
of the blacklisted schemes unless it is a whitelisted data:image URL), and the T1 obligations
dangerous_covered / good_kinds / default_chars_safe over tables extracted from the live modules.
Tie: `encode` vs mdurl.encode (per code point: exhaustive in thorough, all ASCII + stride sample in
quick; strings with %xx triples); `validateLink` on normalizeLink outputs and ASCII strings; the
Python twin of `browserScheme` vs the Lean original.
Oracle: on link_open/image tokens (any depth) and on href/src attributes of rendered HTML: URL-safe
ASCII, browser-read scheme not dangerous; a rejected destination leaves its construct as literal text.
"""
from __future__ import annotations

import ast
import html as htmlmod
import re

from .common import Ctx, Driver, Finding, REPO, enc, dec
from . import gens

RULE = (
    "scheme-spelling generator (javascript/vbscript/file/data/http/mailto x mixed case, entity- and backslash-"
    "encoded letters, leading/trailing controls and blanks, tab/newline inside the scheme, percent-encoding, data: "
    "kinds) embedded in every producer (inline link, <>-destination, reference definition, autolink, image, image in "
    "link) + G-doc documents, html on and off; a case is (document, configuration); non-trivial = at least one "
    "link/image token was produced or a construct with a dangerous scheme was rejected; distinct by document."
)

SAFE = set("abcdefghijklmnopqrstuvwxyzABCDEFGHIJKLMNOPQRSTUVWXYZ0123456789;/?:@&=+$,-_.!~*'()#%")
DANGEROUS = {"javascript", "vbscript", "file", "data"}
GOOD_DATA = re.compile(r"^data:image/(gif|png|jpeg|webp);", re.I)


def browser_scheme(h: str):
    """Python twin of MdIt.browserScheme (WHATWG URL scheme reading)"""
    s = h
    while s and ord(s[0]) <= 32:
        s = s[1:]
    while s and ord(s[-1]) <= 32:
        s = s[:-1]
    s = s.replace("\t", "").replace("\n", "").replace("\r", "")
    if not s or not (("a" <= s[0] <= "z") or ("A" <= s[0] <= "Z")):
        return None
    out = []
    for c in s:
        if c == ":":
            return "".join(out).translate({i: i + 32 for i in range(65, 91)})
        if ("a" <= c <= "z") or ("A" <= c <= "Z") or ("0" <= c <= "9") or c in "+-.":
            out.append(c)
        else:
            return None
    return None


SCHEMES = ["javascript", "vbscript", "file", "data", "http", "mailto", "JAVASCRIPT", "Data", "FiLe"]
LETTER_FORMS = [lambda c: c, lambda c: c.upper(), lambda c: f"&#{ord(c)};", lambda c: f"&#x{ord(c):x};",
                lambda c: "\\" + c, lambda c: f"%{ord(c):02x}", lambda c: c + "&Tab;", lambda c: c + "\t",
                lambda c: c + "&NewLine;", lambda c: c + "&#0;", lambda c: c + "​"]
PREFIXES = ["", "", "", " ", "\t", "\x01", "\x1f", "&#1;", "&#x1F;", " ", " ", "﻿", "&Tab;", "&#32;",
            "%20", "\\ ", "&nbsp;", "\x0b", "\x0c", "&#12;"]
COLONS = [":", ":", "&colon;", "&#58;", "&#x3a;", "\\:", "%3a", "&#58", ":\t"]
TAILS = ["alert(1)", "//x/y", "image/png;base64,AA", "image/svg+xml;x", "text/html,<b>", "image/gif;", "IMAGE/PNG;",
         "x//data:image/png;", "a@b.c", "", "image/webp;base64", "image/jpeg;", " image/png;"]


UNSAFE_BITS = ["é", "\x01|^", "«x»", "`{}`", "|", "^", "ü/ö?ä=ß", "\u2028", "😀", "\\", "[x]", "%zz", "%", "\x7f", "<b>", "a b" ]


def rand_url(rng) -> str:
    s = rng.choice(SCHEMES)
    k = rng.random()
    out = rng.choice(PREFIXES)
    for c in s:
        f = LETTER_FORMS[0] if rng.random() < 0.75 else rng.choice(LETTER_FORMS)
        out += f(c)
    out += rng.choice(COLONS) + rng.choice(TAILS)
    if rng.random() < 0.3:
        # characters that must come out percent-encoded, whatever the scheme or media type in front of them
        out += rng.choice(UNSAFE_BITS)
    if rng.random() < 0.2:
        out += rng.choice(PREFIXES)
    return out


def embed(rng, url: str) -> str:
    k = rng.randrange(8)
    if k == 0:
        return f"[a]({url})\n"
    if k == 1:
        return f"[a](<{url}>)\n"
    if k == 2:
        return f"[a][r]\n\n[r]: {url}\n"
    if k == 3:
        return f"<{url}>\n"
    if k == 4:
        return f"![a]({url})\n"
    if k == 5:
        return f"[![i]({url})]({url} \"t\")\n"
    if k == 6:
        return f"[r]: <{url}> 'T'\n\n![x][r] [r]\n"
    return f"> - [a]({url} \"t\") ![b](<{url}>)\n"


def urls_of_tokens(tokens):
    for t in tokens:
        if t.type == "link_open" and "href" in t.attrs:
            yield ("href", t.attrs["href"])
        if t.type == "image" and "src" in t.attrs:
            yield ("src", t.attrs["src"])
        if t.children:
            yield from urls_of_tokens(t.children)


ATTR_RE = re.compile(r'(?:href|src)="([^"]*)"')


def check_url(kind, u):
    if not isinstance(u, str):
        return f"{kind} is not a str"
    bad = [c for c in u if c not in SAFE]
    if bad:
        return f"{kind} {u!r} contains characters that are not URL-safe ASCII: {bad[:3]!r}"
    sch = browser_scheme(u)
    if sch in DANGEROUS and not GOOD_DATA.match(u):
        return f"{kind} {u!r} has the dangerous scheme {sch}"
    return None


def validate_scan():
    """advisory static twin: every `attrs = {"href"|"src": NAME}` sits in a function that calls validateLink(NAME)"""
    bad = []
    for f in sorted((REPO / "markdown_it").rglob("*.py")):
        try:
            tree = ast.parse(f.read_text())
        except SyntaxError:
            continue
        for fn in ast.walk(tree):
            if not isinstance(fn, (ast.FunctionDef, ast.AsyncFunctionDef)):
                continue
            validated = set()
            for node in ast.walk(fn):
                if isinstance(node, ast.Call) and isinstance(node.func, ast.Attribute) and node.func.attr == "validateLink" and node.args:
                    validated.add(ast.unparse(node.args[0]))
            for node in ast.walk(fn):
                if isinstance(node, ast.Dict):
                    for k, v in zip(node.keys, node.values):
                        if isinstance(k, ast.Constant) and k.value in ("href", "src"):
                            name = ast.unparse(v)
                            if name not in validated and not (fn.name in ("image", "link") and name == "href" and "href" in "".join(validated)):
                                # link.py/image.py validate `href` after `href = normalizeLink(...)`; references were
                                # validated when stored (reference.py) — accept `href` read from env references
                                if name == "href" and f.name in ("link.py", "image.py"):
                                    continue
                                bad.append(f"{f.relative_to(REPO)}:{node.lineno} {k.value}={name}")
    return bad


def run(ctx: Ctx) -> None:
    import mdurl
    from markdown_it import MarkdownIt

    quick = ctx.quick()
    rng = ctx.rng
    drv = Driver()
    try:
        # ---- tie: encode per code point
        cps = list(range(0, 0x300)) + list(range(0x300, 0x110000, 1 if not quick else 97))
        cps = [c for c in cps if not (0xD800 <= c <= 0xDFFF)]
        strs = [chr(c) for c in cps]
        pats = ["%", "%4", "%41", "%zz", "%4g", "%%41", "%%", "a%20b", "%e9", "%E9x", "é%41%", "%25", "x%", "%A", "%aF"]
        strs += pats
        for _ in range(1500 if quick else 30000):
            n = rng.randint(1, 8)
            strs.append("".join(rng.choice(["%", "4", "1", "a", "F", "g", " ", "é", "<", "\"", "\x00", "/", ":", "😀", "\\"]) for _ in range(n)))
        got = drv.batch(["encode " + enc(s) for s in strs])
        for s, g in zip(strs, got):
            ctx.corr_compared += 1
            want = mdurl.encode(s)
            if enc(want) != g:
                ctx.mismatch("mdurl.encode: implementation and model differ", {"input": s, "impl": want, "model": dec(g)})
                break
        ctx.cov["encode_code_points_compared"] = len(cps)
        ctx.cov["encode_exhaustive"] = not quick
        # ---- generated documents
        mds = [MarkdownIt("commonmark"), MarkdownIt("js-default"), MarkdownIt("commonmark", {"html": False}).enable(["table"]),
               MarkdownIt("js-default", {"html": True, "typographer": True})]
        vstrs, sstrs = [], []
        ndoc = 2500 if quick else 60000
        for i in range(ndoc):
            if i % 5 == 4:
                doc = next(gens.doc_stream(rng, 1, 6))
                url = None
            else:
                url = rand_url(rng)
                doc = embed(rng, url)
            md = mds[i % len(mds)]
            try:
                env = {}
                toks = md.parse(doc, env)
                out = md.renderer.render(toks, md.options, env)
            except Exception:
                continue
            found = list(urls_of_tokens(toks))
            for ref in env.get("references", {}).values():
                found.append(("reference href", ref.get("href")))
            err = None
            for kind, u in found:
                err = check_url(kind, u)
                if err:
                    break
                vstrs.append(u)
            if not err:
                for m in ATTR_RE.finditer(out):
                    val = htmlmod.unescape(m.group(1))
                    if md.options["html"] and ("<" in doc.replace("<" + (url or "\0") + ">", "")):
                        continue  # raw HTML passes through by design when html is on
                    err = check_url("rendered attribute", val)
                    if err:
                        break
            rejected = False
            if url is not None and not found:
                rejected = True
                # left as literal text rather than dropped: the visible text of the construct survives
                txt = re.sub(r"<[^>]*>", "", out)
                if "a" not in txt and "x" not in txt and "i" not in txt and doc.startswith(("[a]", "![a]", "> -")):
                    err = "a rejected construct was dropped instead of being left as literal text"
            ctx.count(doc, nontrivial=bool(found) or rejected)
            if err:
                ctx.fail("dangerous-url", err, {"input": doc, "preset_index": i % len(mds), "output": out[:300]})
            elif len(ctx.samples) < 4 and url and found:
                ctx.sample({"input": doc, "urls": found[:2]})
            if url is not None:
                sstrs.append(url)
        # ---- deterministic sweep: scheme x tail x character that must be percent-encoded, as a <>-destination
        mdc = mds[0]
        nsweep = 0
        for sch in SCHEMES:
            for tail in TAILS:
                for bit in UNSAFE_BITS:
                    url = f"{sch}:{tail}{bit}"
                    if "<" in url or ">" in url or "\\" in url:
                        continue
                    doc = f"[a](<{url}>) ![b](<{url}>)\n"
                    try:
                        toks = mdc.parse(doc)
                    except Exception:
                        continue
                    nsweep += 1
                    for kind, u in urls_of_tokens(toks):
                        err = check_url(kind, u)
                        if err:
                            ctx.fail("dangerous-url", err, {"input": doc, "preset_index": 0})
                            break
                    sstrs.append(url)
        ctx.evaluations += nsweep
        ctx.cov["scheme_tail_unsafe_sweep"] = nsweep
        # ---- tie: normalizeLink is parse -> (punycode of the host) -> format -> encode, with no other path
        from markdown_it.common.normalize_url import normalizeLink, validateLink, RECODE_HOSTNAME_FOR
        import mdurl as _mdurl

        def norm_twin(u):
            parsed = _mdurl.parse(u, slashes_denote_host=True)
            if parsed.hostname and (not parsed.protocol or parsed.protocol in RECODE_HOSTNAME_FOR):
                try:
                    from markdown_it import _punycode as pc
                    parsed = parsed._replace(hostname=pc.to_ascii(parsed.hostname))
                except Exception:
                    pass
            return _mdurl.encode(_mdurl.format(parsed))
        for u in list(dict.fromkeys(sstrs))[: (6000 if quick else 60000)]:
            try:
                a = normalizeLink(u)
            except Exception:
                continue
            try:
                b = norm_twin(u)
            except Exception:
                continue
            ctx.corr_compared += 1
            if any(ch not in SAFE for ch in a):
                ctx.fail("dangerous-url", f"normalizeLink({u!r}) = {a!r} is not URL-safe ASCII", {"input": f"[a](<{u}>)\n", "preset_index": 0})
            if a != b:
                ctx.mismatch("normalizeLink differs from parse -> punycode(host) -> format -> encode", {"input": u, "impl": a, "twin": b})
                break
        cand = list(dict.fromkeys(vstrs))[:3000]
        for u in sstrs[:3000]:
            try:
                cand.append(normalizeLink(u))
            except Exception:
                pass
        cand += ["javascript:x", "JAVASCRIPT:x", "data:image/png;x", "data:text/html", "file:///x", "vbscript:x", "http://x",
                 "data:", "Data:Image/Gif;", "x:javascript:", "javascript", ""]
        cand = [c for c in cand if all(ch in SAFE for ch in c)]
        got = drv.batch(["validate " + enc(u) for u in cand])
        for u, g in zip(cand, got):
            ctx.corr_compared += 1
            if ("1" if validateLink(u) else "0") != g:
                ctx.mismatch("validateLink: implementation and model differ", {"input": u, "impl": validateLink(u), "model": g})
                break
        tw = list(dict.fromkeys(cand + sstrs[:2000] + ["\x01javascript:x", " \tjava\nscript:x ", "1a:", "a+b.c-d:x", ":", "a", "A:"]))
        got = drv.batch(["scheme " + enc(u) for u in tw])
        for u, g in zip(tw, got):
            ctx.corr_compared += 1
            s = browser_scheme(u)
            w = "N" if s is None else "s" + enc(s)
            if w != g:
                ctx.mismatch("browserScheme: Python twin and Lean definition differ", {"input": u, "twin": s, "lean": g})
                break
        # ---- the dangerous strings must be rejected by the API pair
        for u in sstrs[:2000]:
            try:
                n = normalizeLink(u)
            except Exception:
                continue
            if validateLink(n):
                e = check_url("normalizeLink/validateLink", n)
                if e:
                    ctx.fail("dangerous-url", "validateLink accepts a normalised URL with a dangerous scheme: " + e, {"input": u, "normalised": n})
                    break
        from . import rxtie
        rxtie.tie_leaf(ctx, drv, quick)      # translated regular expressions + inline leaf rules (autolink, html_inline, entity)
        from . import pipeline
        pipeline.tie_full(ctx, drv, 2000 if quick else 60000)     # MarkdownIt.parse end to end on the modelled sub-language
        pipeline.tie_full(ctx, drv, 2500 if quick else 60000, ref=True)     # ... with the reference block rule (ten of eleven block rules)
        pipeline.tie_full(ctx, drv, 1500 if quick else 40000, table=True)     # all eleven block rules: the table rule in the main chain and as a terminator (driver `fullparset`)
    finally:
        drv.close()
    scan = validate_scan()
    ctx.cov["static_validate_scan"] = scan
    ctx.partial += [
        "C05.tokens (every href/src the parser stores went through normalizeLink and validateLink) is a theorem for autolinks in the "
        "modelled inline sub-parser (C05.xmini_hrefs) and for inline / reference links and images (src, at every depth of nested descriptions) under the hypothesis that env's references are acceptable (C05.link_hrefs, C05.image_hrefs); for the reference block rule and linkify it is carried by the oracle on tokens/HTML and the advisory AST scan",
        "the linkifier clause cannot be exercised: linkify-it-py is not installed in this sandbox",
        "normalizeLink = encode ∘ reformat with reformat (mdurl.parse/format, punycode) an external parameter: the theorems hold "
        "for every reformat",
    ]


def search(ctx: Ctx):
    from markdown_it import MarkdownIt

    md = MarkdownIt("js-default")
    rng = ctx.rng
    for _ in range(30000):
        url = rand_url(rng)
        doc = embed(rng, url)
        try:
            toks = md.parse(doc)
        except Exception:
            continue
        for kind, u in urls_of_tokens(toks):
            e = check_url(kind, u)
            if e:
                return Finding("dangerous-url", e, {"input": doc})
    return None


def replay(ctx: Ctx, obj: dict) -> bool:
    from markdown_it import MarkdownIt

    if "input" in obj:
        for md in (MarkdownIt("commonmark"), MarkdownIt("js-default")):
            for kind, u in urls_of_tokens(md.parse(obj["input"])):
                if check_url(kind, u):
                    return False
    return True
