"""End-to-end tie of `MarkdownIt.parse` for the modelled sub-language (driver `fullparse`, lean/MdIt/Pipeline.lean):
core chain normalize -> block -> inline -> text_join over nine of the eleven block rules and eleven of the twelve inline rules.
Whole documents, every field of every token, children included."""
from __future__ import annotations

import importlib
import re

from .common import Ctx, Driver, enc
from .tokcodec import enc_toks
from . import gens
from .miniblock import rand_more, rand_l, rand_q, MORE_NAMES, blankify
from .rxtie import LINK_ATOMS, IMAGE_ATOMS

INLINE_NAMES = {"n": "newline", "e": "escape", "b": "backticks", "m": "emphasis", "s": "strikethrough", "a": "autolink", "h": "html_inline",
                "y": "entity", "l": "link", "i": "image"}
INLINE_SETS = ["tnebsmliahy", "tnebsmliahy", "tnebmli", "tli", "tmi", "ti", "tnebsml", "tlahy", "t", "tne", "tnebsmliahy", "nebmli", "tsli"]
FIXED = ["```\n<pre><script>alert(1)</script></pre>\n```\n", "> ~~~ i\n> <pre>x</pre>\n", "    <pre>y</pre>\n", "# h *e* ![i](s)\n\n- a [l](u 't')\n- b\n\n> q `c` <http://x.y> &amp;\n", "para ![a ![b](c)](d)\n===\n", "<div>\n*x*\n</div>\n\n*y*\n",
         "- ![x](javascript:y)\n\n  [z](data:image/png;base64,q)\n", "a\\\nb  \nc\n", "> - # [h](u)\n>   ***\n", "    code *x*\n\n~~~\n[f](g)\n~~~\n",
         "[r] ![r] [t][r]\n", "a\n---\n![b][R]\n", "* * *\n*a*\n"]


DEF_LABELS = ["r", "R", "foo bar", "Foo\tBar", "é", "a\\]b", "a\\\\", "x", "[", "*s*", "l\nm", " r ", ""]
DEF_DESTS = ["/u", "<a b>", "http://x.y/?q=1&r", "javascript:x", "/w_(v)", "\\(p", "<>", "", "/é", "data:image/png;base64,q", "<a\nb>", "/u\\", "(q)"]
DEF_TITLES = ["", "", " 't'", ' "T"', " (p)", "\n'multi\nline'", "\n  \"next\"", " 'a' junk", "\n'cand' junk", " \"unclosed", " 'x\\'y'", " \"a\\\nb\"",
              "  ", " 't'  ", "\n\n't'", "'glued'", " (a(b)"]
FIXED_R = ["[r]: /u 't'\n\n[r] ![r] [x][r]\n", "[a]: /1\n[a]: /2\n\n[a]\n", "> [q]: /in\n\n[q]\n", "- [i]: <x y>\n  'T'\n\n[i]\n", "[r]: /u\n'cand' junk\n\n[r]\n",
           "[r]:\n/u\n\"t\"\n[r]\n", "para\n[r]: /u\n\n[r]\n", "[r]: javascript:x\n\n[r]\n", "[ r\n s ]: /u\n\n[r s]\n", "[r]: /u 't' x\n[r]\n", "[", "[r]:", "[r]: /u\n===\n[r]\n",
           "[a\\]: /u\n\n[a\\]\n", "[r]: /u\n    't'\n\n[r]\n", "[r]: /u\n> q\n", "[r]: /u 't\n\nu'\n", "[]: /u\n\n[]\n", "[ ]: /u\n"]


def with_defs(rng, src: str) -> str:
    """reference definitions spliced into a document: at the start, between lines, inside containers; uses of their labels"""
    ls = src.split("\n")
    for _ in range(rng.randint(1, 3)):
        lab = rng.choice(DEF_LABELS)
        d = "[" + lab + "]:" + rng.choice([" ", "", "\n", "  ", "\t"]) + rng.choice(DEF_DESTS) + rng.choice(DEF_TITLES)
        pre = rng.choice(["", "", "", "> ", "- ", "  ", "   ", "    ", "1. "])
        cont = {"> ": "> ", "- ": "  ", "1. ": "   "}.get(pre, pre if rng.random() < 0.5 else "")
        dl = d.split("\n")
        block = [pre + dl[0]] + [cont + x for x in dl[1:]]
        at = rng.randint(0, len(ls))
        if rng.random() < 0.5:
            block.append("")
        ls[at:at] = block
        if rng.random() < 0.7:
            use = rng.choice(["[%s]", "![%s]", "[t][%s]", "[%s][]", "![i][%s] *e*"]) % lab.replace("\n", " ")
            ls.append("")
            ls.append(use)
    return "\n".join(ls)


TBL_CELLS = ["a", "b c", "*e*", "`c|d`", "x\\|y", "\\", "a\\\\", "", " ", "[l](u)", "![i](s)", "&amp;", "<b>", "\\|", "é", "a\tb", "\u00a0", "-", ":-:", "> q", "- i", "# h",
             "1. o", "```", "    ", "\\\\|", "~~s~~", "<http://x.y>", "[r]", "a\\"]
TBL_DELIMS = ["---", ":--", "--:", ":-:", "-", ":-", "-:", " --- ", "\t--\t", "", " ", "::", "-:-", ":--:", "--", "- -", "---x"]
FIXED_T = ["abc\ndef\n:-:\n2. item\n", "abc\n2. def\n---\n", "abc\n---\n-\nx\n", "> abc\n> --:\n> 7) x\n", "a|b\n-|-\nc|d\n", "|a|b|\n|--|:-:|\n|c|\n|d|e|f|\n\npara\n", "a|b\n-|-\n", "a|b\n-|-", "a|b\n- |-\n", "a\n-|-\n", "|a|\n|-|\n> q\n", "|a|\n|-|\n- l\n", "|a|\n|-|\n# h\n",
           "|a|\n|-|\n    code\n", "para\n|a|\n|-|\n", "para\na|b\n-|-\nc\n", "> a|b\n> -|-\n> c|d\ne|f\n", "- a|b\n  -|-\n  c|d\n e|f\n", "a\\|b|c\n-|-\n", "|a\\\\|b|\n|-|-|\n", "| |\n|-|\n", "||\n|-|\n",
           "a|b\n-||-\n", "a|b\n-|-|\n", "a|b\n|-|-\nx\n\ny\n", "[r]: /u\na|b\n-|-\n", "a|b\n:-|-:\n```\nf\n```\n", "a|b\n-|-\n<div>\n", "a|b\n-|-\n***\n", "    a|b\n-|-\n", "a|b\n    -|-\n", "a|b\n-|-\n \nz\n",
           "t\n===\na|b\n-|-\n", "a|b\n-|-\nc|d\n===\n", "|\n-|\n", "a|\n-|\n", "|a\n|-\n", "a|b\n--\n", "-|-\n-|-\n-|-\n", "a|b\n\t-|-\n", "\u00a0|a|\u00a0\n|-|\n\u00a0|b\u00a0\n"]


def rand_table(rng) -> list[str]:
    """a table-shaped group of lines: header row, delimiter row (sometimes invalid), body rows with missing / surplus cells"""
    n = rng.randint(1, 4)
    def row(k):
        cells = [rng.choice(TBL_CELLS) for _ in range(k)]
        lead = rng.choice(["|", "", "| ", " |", "|"])
        trail = rng.choice(["|", "", " |", "| ", "|"])
        sep = rng.choice(["|", " | ", "| ", " |"])
        r = lead + sep.join(cells) + trail
        return r if (r.strip() or rng.random() < 0.2) else "|"
    drow_n = n if rng.random() < 0.85 else rng.randint(1, 5)
    delim = rng.choice(["|", "", "| "]) + rng.choice(["|", " | ", "|"]).join(rng.choice(TBL_DELIMS[:10] if rng.random() < 0.85 else TBL_DELIMS) for _ in range(drow_n)) + rng.choice(["|", "", " |"])
    out = [row(n), delim]
    for _ in range(rng.randint(0, 4)):
        out.append(row(n if rng.random() < 0.6 else rng.randint(0, 6)))
    return out


def with_tables(rng, src: str) -> str:
    """table groups spliced into a document: at top level, inside containers (with and without the continuation prefix), directly after
    paragraph lines (the table rule as a terminator), followed by terminators"""
    ls = src.split("\n")
    for _ in range(rng.randint(1, 2)):
        t = rand_table(rng)
        pre = rng.choice(["", "", "", "", "> ", "- ", "  ", "   ", "    ", "1. ", "> - ", "\t"])
        cont = {"> ": rng.choice(["> ", "> ", ">", ""]), "- ": rng.choice(["  ", "  ", " ", ""]), "1. ": "   ", "> - ": rng.choice([">   ", "> ", ""])}.get(pre, pre if rng.random() < 0.7 else "")
        block = [pre + t[0]] + [cont + x for x in t[1:]]
        if rng.random() < 0.3:
            block.append(cont + rng.choice(["> q", "- l", "# h", "```", "***", "<div>", "    c", "", " ", "text", "[x]: /y", "==="]))
        at = rng.randint(0, len(ls))
        if rng.random() < 0.5:
            block.append("")
        if rng.random() < 0.4:
            block.insert(0, "")
        ls[at:at] = block
    return "\n".join(ls)


def rand_full(rng) -> str:
    k = rng.random()
    base = rand_more(rng) if k < 0.3 else rand_l(rng) if k < 0.5 else rand_q(rng) if k < 0.65 else gens.struct_doc(rng, 2) if k < 0.85 \
        else next(gens.doc_stream(rng, 1, 6))
    ls = base.split("\n")
    if rng.random() < 0.06:      # a fence around markup-shaped lines
        f = rng.choice(["```", "~~~", "````"])
        ls = [f + rng.choice(["", " info", "<pre>"])] + rng.choice([["<pre><b>x</b></pre>"], ["<pre>", "y", "</pre>"], ["<code>z</code>"]]) + ([f] if rng.random() < 0.8 else []) + ls
    for i in range(len(ls)):
        r = rng.random()
        if r < 0.3:
            ls[i] += (" " if rng.random() < 0.7 else "") + "".join(rng.choice(IMAGE_ATOMS if rng.random() < 0.4 else LINK_ATOMS)
                                                                   for _ in range(rng.randint(1, 4))).replace("\n", " ")
        elif r < 0.36 and ls[i].strip():
            ls[i] += rng.choice(["  ", "\\", " *e*", " `c`", " <b>", " &#35;"])
    s = "\n".join(ls)
    if rng.random() < 0.15:
        s = blankify(rng, s)
    return s


def tie_full(ctx: Ctx, drv: Driver, n: int, ref: bool = False, render: bool = False, table: bool = False) -> None:
    """`table=True` (implies `ref`): all eleven block rules — driver `fullparset`, documents with table groups spliced in"""
    ref = ref or table
    from markdown_it import MarkdownIt
    from markdown_it.common import normalize_url as nu
    from markdown_it.common.utils import normalizeReference
    from markdown_it.common.entities import entities as lib_entities
    import mdurl
    from markdown_it import _punycode

    linkmod = importlib.import_module("markdown_it.rules_inline.link")
    imgmod = importlib.import_module("markdown_it.rules_inline.image")
    refmod = importlib.import_module("markdown_it.rules_block.reference")
    rng = ctx.rng

    def reformat(url: str) -> str:
        parsed = mdurl.parse(url, slashes_denote_host=True)
        if parsed.hostname and (not parsed.protocol or parsed.protocol in nu.RECODE_HOSTNAME_FOR):
            try:
                parsed = parsed._replace(hostname=_punycode.to_ascii(parsed.hostname))
            except Exception:
                pass
        return mdurl.format(parsed)

    def pairs(d: dict) -> str:
        return ",".join(f"{enc(k)}={enc(v)}" for k, v in d.items()) or "~"

    name_re = re.compile(r"&([^&;\s]{1,40});")
    ref_sets = [{}, {"r": ("/ref", "")}, {"r": ("/ref", "RT"), "foo bar": ("/fb", "t\"q"), "é": ("/e", "")}, {"R": ("javascript:x", "")}]
    lines, exp, meta = [], [], []
    orig_norm = linkmod.normalizeReference
    try:
        for it in range(n):
            src = FIXED[it] if it < len(FIXED) else rand_full(rng)
            if ref:
                src = FIXED_R[it] if it < len(FIXED_R) else with_defs(rng, src)
            if table:
                src = FIXED_T[it] if it < len(FIXED_T) else with_tables(rng, src) if rng.random() < 0.9 else src
            table_on = table and (it < len(FIXED_T) or rng.random() < 0.85)
            ref_on = ref and rng.random() < 0.9
            idefs = ref and rng.random() < 0.3
            if "\x00" in src and rng.random() < 0.5:
                src = src.replace("\x00", "")
            rs = rng.choice(INLINE_SETS)
            bits = rng.randrange(64) if it % 3 else 63
            html_on = rng.random() < 0.6
            mn = rng.choice([100, 20, 20, 1, 0, 2, 3, 5])
            fj = rng.random() < 0.85
            tj = rng.random() < 0.85
            inl = rng.random() < 0.93
            store = rng.random() < 0.3
            xh, brk, lp = rng.random() < 0.5, rng.random() < 0.3, rng.choice(["language-", "language-", "lang-", "", "x y-"])
            ropts = {"xhtmlOut": xh, "breaks": brk, "langPrefix": lp} if render else {}
            md = MarkdownIt("zero", {"maxNesting": mn, "html": html_on, "store_labels": store, "inline_definitions": idefs, **ropts})
            md.enable(["blockquote", "list"] + [MORE_NAMES[j] for j in range(6) if bits >> (5 - j) & 1] + (["reference"] if ref_on else []) + (["table"] if table_on else []))
            en = [INLINE_NAMES[c] for c in rs if c in INLINE_NAMES]
            if en:
                md.enable(en)
            if "t" not in rs:
                md.disable("text")
            if not fj:
                md.inline.ruler2.disable("fragments_join")
            if not tj:
                md.disable("text_join")
            if not inl:
                md.disable("inline")
            refs = rng.choice(ref_sets)
            has_refs = rng.random() < 0.6
            env = {"references": {normalizeReference(k): {"href": v[0], "title": v[1]} for k, v in refs.items()}} if has_refs else {}
            seen_norm, seen_text, seen_ref = {}, {}, {}
            orig_nl, orig_nt = md.normalizeLink, md.normalizeLinkText

            def nl(u, _o=orig_nl, _d=seen_norm):
                _d[u] = reformat(u)
                return _o(u)

            def nt(u, _o=orig_nt, _d=seen_text):
                r = _o(u)
                _d[u] = r
                return r

            def nr(label, _d=seen_ref):
                r = orig_norm(label)
                _d[label] = r
                return r

            md.normalizeLink = nl
            md.normalizeLinkText = nt
            linkmod.normalizeReference = nr
            imgmod.normalizeReference = nr
            refmod.normalizeReference = nr
            seeded = dict(env.get("references", {}))
            try:
                if render:
                    e = "ok " + enc(md.render(src, env))
                    toks = []
                else:
                    toks = md.parse(src, env)
                    e = "ok " + " ".join(enc_toks(toks))
                if ref and not render:
                    added = [(k, v) for k, v in env.get("references", {}).items() if k not in seeded]
                    e += " #refs " + (",".join(f"{enc(k)}={enc(v['href'])}={enc(v['title'])}" for k, v in added) or "~")
                    e += " #dups " + (",".join(f"{enc(v['label'])}={enc(v['href'])}={enc(v['title'])}" for v in env.get("duplicate_refs", [])) or "~")
            except Exception as ex:  # noqa: BLE001
                e = "e:" + type(ex).__name__
            ents = {m.group(1): lib_entities[m.group(1)] for m in name_re.finditer(src) if m.group(1) in lib_entities}
            rh = {k: v["href"] for k, v in seeded.items()}
            rt = {k: v["title"] for k, v in seeded.items() if v["title"]}
            req = f"fullparser {bits:06b}{1 if html_on else 0}{1 if ref_on else 0}{1 if idefs else 0}" if ref else f"fullparse {bits:06b}{1 if html_on else 0}"
            if table:
                req = f"fullparset {bits:06b}{1 if html_on else 0}{1 if ref_on else 0}{1 if idefs else 0}{1 if table_on else 0}"
            if render:
                req = f"fullrender {1 if xh else 0} {1 if brk else 0} {enc(lp)} {bits:06b}{1 if html_on else 0}{1 if ref_on else 0}{1 if idefs else 0}"
            lines.append(f"{req} {mn} {rs or '-'} {1 if fj else 0} {1 if inl else 0} {1 if tj else 0} {pairs(ents)} "
                         f"{pairs(seen_norm)} {pairs(seen_text)} {1 if has_refs else 0} {1 if store else 0} {pairs(rh)} {pairs(rt)} {pairs(seen_ref)} {enc(src)}")
            exp.append(e)
            meta.append((src, bits, html_on, mn, rs, fj, inl, tj, has_refs, store, sorted(refs), ref_on, idefs, table_on))
    finally:
        linkmod.normalizeReference = orig_norm
        imgmod.normalizeReference = orig_norm
        refmod.normalizeReference = orig_norm
    got = drv.batch(lines)
    kinds = {}
    ndefs = sum(1 for e in exp if " #refs " in e and not e.split(" #refs ")[1].startswith("~"))
    bad = 0
    for e, g, m in zip(exp, got, meta):
        ctx.corr_compared += 1
        for ty in ("link_open", "image", "em_open", "code_inline", "html_block", "blockquote_open", "bullet_list_open", "heading_open", "table_open", "tbody_open"):
            if enc(ty) + "|" in e:
                kinds[ty] = kinds.get(ty, 0) + 1
        if e.strip() != g.strip():
            bad += 1
            if bad <= 5:
                ctx.mismatch("MarkdownIt.parse end to end (modelled sub-language" + (", all eleven block rules" if table else ", with the reference rule" if ref else "") + (", rendered to HTML" if render else "") + "): implementation and model differ",
                             {"input": m[0], "block_enabled": ["blockquote", "list"] + [MORE_NAMES[j] for j in range(6) if m[1] >> (5 - j) & 1],
                              "reference": m[11], "inline_definitions": m[12], "table": m[13], "html": m[2], "maxNesting": m[3], "inline_rules": m[4], "fragments_join": m[5], "inline": m[6], "text_join": m[7],
                              "has_refs": m[8], "store_labels": m[9], "refs": m[10], "impl": e[:700], "model": g[:700]})
    if table:
        ctx.cov["full_parse_table_tie"] = {"documents": len(lines), "documents_with": kinds, "documents_recording_definitions": ndefs}
    elif render:
        ctx.cov["full_render_tie"] = {"documents": len(lines), "documents_with": kinds}
    elif ref:
        ctx.cov["full_parse_ref_tie"] = {"documents": len(lines), "documents_with": kinds, "documents_recording_definitions": ndefs}
    else:
        ctx.cov["full_parse_tie"] = {"documents": len(lines), "documents_with": kinds}
