"""Confirm a seeded change and run the checks against it.

usage: /venv/bin/python -m harness.seed_eval <PID> <src_dir with patch.diff demo.py notes.txt> <name> [--tier quick] [--also C02,C09]

1. scratch worktree of /repo HEAD (removed afterwards): patch applies; test suite result equals the baseline
   (875 passed / 32 failed); demo.py fails with the patch and passes without.
2. files copied to /verif/seeded/<name>/ with meta.json.
3. patch applied to /repo, `./check <PID>` run (and the checks named by --also), /repo restored.
"""
from __future__ import annotations

import json
import re
import shutil
import subprocess
import sys
import time
from pathlib import Path

ROOT = Path(__file__).resolve().parent.parent
REPO = Path("/repo")
PY = "/venv/bin/python"


def sh(cmd, **kw):
    return subprocess.run(cmd, shell=True, capture_output=True, text=True, **kw)


def suite(tree: Path) -> str:
    p = sh(f"cd {tree} && PYTHONPATH={tree} {PY} -m pytest -q -p no:cacheprovider --timeout=900 2>&1 | tail -1")
    m = re.search(r"(\d+) failed, (\d+) passed|(\d+) passed", p.stdout)
    return m.group(0) if m else p.stdout.strip()[-200:]


def main() -> int:
    pid, src, name = sys.argv[1], Path(sys.argv[2]), sys.argv[3]
    tier = "quick"
    also = []
    args = sys.argv[4:]
    for i, a in enumerate(args):
        if a == "--tier":
            tier = args[i + 1]
        if a == "--also":
            also = args[i + 1].split(",")
    patch = (src / "patch.diff").resolve()
    demo = (src / "demo.py").resolve()
    wt = Path(f"/tmp/wt/verify_{name}")
    sh(f"git -C {REPO} worktree remove --force {wt}")
    r = sh(f"git -C {REPO} worktree add -q --detach {wt} HEAD")
    meta = {"property": pid, "name": name, "ran": []}
    try:
        clean_demo = sh(f"cd /tmp && PYTHONPATH={wt} timeout 300 {PY} {demo}")
        meta["demo_clean_exit"] = clean_demo.returncode
        ap = sh(f"git -C {wt} apply {patch}")
        if ap.returncode != 0:
            print("patch does not apply:", ap.stderr)
            return 2
        meta["suite_with_patch"] = suite(wt)
        mut_demo = sh(f"cd /tmp && PYTHONPATH={wt} timeout 300 {PY} {demo}")
        meta["demo_patched_exit"] = mut_demo.returncode
        meta["demo_patched_tail"] = (mut_demo.stdout + mut_demo.stderr)[-600:]
    finally:
        sh(f"git -C {REPO} worktree remove --force {wt}")
    confirmed = (
        meta["demo_clean_exit"] == 0
        and meta["demo_patched_exit"] != 0
        and meta["suite_with_patch"].startswith("32 failed, 875 passed")
    )
    meta["confirmed"] = confirmed
    print(json.dumps({k: meta[k] for k in ("demo_clean_exit", "demo_patched_exit", "suite_with_patch", "confirmed")}))
    if not confirmed:
        print("NOT CONFIRMED — not kept")
        print(meta.get("demo_patched_tail", ""))
        return 1
    dst = ROOT / "seeded" / name
    dst.mkdir(parents=True, exist_ok=True)
    shutil.copy(patch, dst / "patch.diff")
    shutil.copy(demo, dst / "demo.py")
    if (src / "notes.txt").exists():
        meta["needs"] = (src / "notes.txt").read_text()[:1500]
    # run the checks against it
    st = sh(f"git -C {REPO} status --porcelain")
    if st.stdout.strip():
        print("refusing: /repo is dirty")
        return 2
    ap = sh(f"git -C {REPO} apply {dst / 'patch.diff'}")
    assert ap.returncode == 0, ap.stderr
    try:
        for p in [pid] + also:
            t0 = time.time()
            c = sh(f"cd {ROOT} && timeout 3000 ./check {p} --tier {tier}")
            lines = [l for l in c.stdout.split("\n") if l.startswith(("VIOLATION", "KNOWN-FINDING")) or l.startswith(p + " ")]
            meta["ran"].append({"check": p, "tier": tier, "exit": c.returncode, "seconds": round(time.time() - t0, 1),
                                "output": lines[:8]})
            print(p, "exit", c.returncode, lines[:3])
    finally:
        sh(f"git -C {REPO} checkout -- .")
    meta["detected_by"] = [r["check"] for r in meta["ran"] if r["exit"] == 1]
    (dst / "meta.json").write_text(json.dumps(meta, indent=1))
    # evidence files must come from the unchanged tree: re-run the checks clean
    for p in [pid] + also:
        c = sh(f"cd {ROOT} && timeout 3000 ./check {p} --tier quick")
        if c.returncode != 0:
            print("WARNING: clean re-run of", p, "exit", c.returncode)
    return 0


if __name__ == "__main__":
    sys.exit(main())
