"""Tie of the modelled block sub-parser (lean/MdIt/BlockRules.lean: normalize, line scan, block loop, rules code / fence /
hr / heading / paragraph) to the real parser: whole documents under the 16 subsets of the four optional rules (zero preset
+ enabled subset) and several maxNesting values; block-level tokens (type, tag, nesting, attrs, map, level, content, markup,
info, meta, block, hidden) compared one by one.  Theorems C01.mini_total / C03.mini_staged and the RuleOK/MapOK instances
are about exactly this model."""
from __future__ import annotations

from .common import Ctx, Driver, enc
from . import gens

NAMES = ["code", "fence", "hr", "heading"]
LINES = ["# h", "####### x", "#######", "######", "####### ", "########", "#######\t", "#", "# h #", "#\tx ##  ", "## a ## b", "#x", "# \\#", "***", "- - -", "__ _", "--", "* * *  x", "```", "````py", "~~~",
         "``` a`b", "~~~ a`b", "``", "```` ", "    code", "\tcode", "     x", "  \tx", "", "  ", "\t", "para", " para  ", "  ## h ##", "   ```", "    ```",
         "===", "\x85x\x85", "x ", "\xa0# h", "\x0bv", "a\x1c", "## ", "##\t", "*-*", "_ _ _ _", "~~~~", "`````", "text `x`", "1. x", "> q", "- a",
         "    ", "      indented more", "﻿# bom", "# h\x00", "\x00"]
TAILS = ["\n", "\n", "", "  ", "\n\n", "\n \t", " ", "\r\n", "\r"]


def rand_mini(rng) -> str:
    n = rng.randint(0, 8)
    return "\n".join(rng.choice(LINES) for _ in range(n)) + rng.choice(TAILS)


def enc_block_tok(t) -> str:
    from .tokcodec import enc_attrval
    attrs = ",".join(f"{enc(k)}={enc_attrval(v)}" for k, v in t.attrs.items()) or "~"
    meta = ",".join(f"{enc(k)}={enc(v)}" for k, v in t.meta.items()) or "~"
    mp = "N" if t.map is None else f"{t.map[0]}-{t.map[1]}"
    nch = "N" if t.children is None else "0"
    return "|".join([enc(t.type), enc(t.tag), str(t.nesting), attrs, mp, str(t.level), nch, enc(t.content),
                     enc(t.markup), enc(t.info), meta, "1" if t.block else "0", "1" if t.hidden else "0"])


QLINES = ["> a", ">a", ">", "> ", ">\ta", "> \ta", ">  \tb", " > c", "   > d", "    > e", "> > f", ">> g", "> >\th", ">\t>\ti", "lazy", "  lazy", "> # h",
          "> ***", "> ```", "> ~~~", "> ```", ">     code", ">\t\tcode", "> ---", "***", "# h", "```", "", "", ">  ", ">\t", "> > ", ">>", ">x\t", "    lazy code",
          "> - a", "> 1. b", ">\x0bv", "> \xa0", "\t> t", " \t> u", ">  \t  \tq",
          # continuation lines of nested quotes whose content is reached through tabs (bsCount of the enclosing quote matters)
          "> >   \tcode", "> >\t\tcode", "> > \tx", ">>\t\ty", "> >  \t```", "> > a", "> >", ">  > \tz", "> >\t>\tw"]


def rand_q(rng) -> str:
    n = rng.randint(1, 9)
    pool = QLINES if rng.random() < 0.7 else QLINES + LINES
    return "\n".join(rng.choice(pool) for _ in range(n)) + rng.choice(TAILS)


def tie_quote(ctx: Ctx, drv: Driver, n: int) -> None:
    """the same tie with the block quote rule in the chain (driver `qblock`): nested quotes, lazy lines, terminators, tabs"""
    from markdown_it import MarkdownIt

    rng = ctx.rng
    mds = {}
    lines, impl, meta = [], [], []
    fixed = ["> > a\n> >\n> >   \tcode\n", "> > a\n> >\n> >\t\tcode\n", "> > ```\n> >  \tx\n> > ```\n", "> > \n> \n\nfoo\n", "> a\nlazy\n> b\n", ">\ta\n>\n>  \tb", "> > > x\n> y\nz\n", "> ```\n> c\n```\n", "> a\n***\n> b", "> # h\n# g\n"]
    for i in range(n):
        k = i % 5
        if i < len(fixed):
            src = fixed[i]
        else:
            src = rand_q(rng) if k < 3 else (gens.struct_doc(rng, 2) if k == 3 else next(gens.doc_stream(rng, 1, 6)))
        bits = rng.randrange(16) if i % 3 else 15
        mn = rng.choice([100, 100, 100, 20, 1, 0, 2, 3])
        key = (bits, mn)
        if key not in mds:
            md = MarkdownIt("zero", {"maxNesting": mn})
            md.enable(["blockquote"] + [NAMES[j] for j in range(4) if bits >> (3 - j) & 1])
            mds[key] = md
        md = mds[key]
        try:
            toks = md.parse(src)
            out = "ok " + " ".join(enc_block_tok(t) for t in toks)
        except Exception as e:  # noqa: BLE001
            out = "e:" + type(e).__name__
        lines.append(f"qblock {bits:04b} {mn} {enc(src)}")
        impl.append(out.strip())
        meta.append((src, bits, mn))
    got = drv.batch(lines)
    bad = 0
    for ln, a, b, m in zip(lines, impl, got, meta):
        ctx.corr_compared += 1
        if a != b.strip():
            bad += 1
            if bad <= 5:
                ctx.mismatch("block sub-parser with block quotes: implementation and model differ",
                             {"input": m[0], "enabled": ["blockquote"] + [NAMES[j] for j in range(4) if m[1] >> (3 - j) & 1], "maxNesting": m[2],
                              "impl": a[:600], "model": b.strip()[:600], "request": ln[:400]})
    ctx.cov["qblock_documents_compared"] = len(lines)


LLINES = ["- a", "* b", "+ c", "-", "- ", "-   d", "-     e", "-\tf", "1. g", "1) h", "10. i", "007. j", "1234567890. k", "123456789. l", "2.", "2. ", "3.x", "-x",
          "  - m", "    - n", "   1. o", "  cont", "    cont4", "      cont6", "\tcont", "", "", "para", "> - q", "- > r", "- # s", "- ***", "* * *", "- ```", "```",
          "1. 2. t", "- - u", "-  \tv", " 1.  w", "- a\n\n  b", "٣. x", "1.\ty", "  ", "-\n  z", "9) ", "- [r]: /u"]


def rand_l(rng) -> str:
    n = rng.randint(1, 10)
    pool = LLINES if rng.random() < 0.6 else LLINES + QLINES + LINES
    return "\n".join(rng.choice(pool) for _ in range(n)) + rng.choice(TAILS)


def law_doc(rng) -> str:
    """a document of the shape C06.list_law quantifies over: a tab-free, '>'-free document whose first line starts with a
    non-blank, behind a list marker and 1-4 spaces, every other line (blank ones too) behind marker width + spaces"""
    D = (rand_l(rng) if rng.random() < 0.5 else rand_mini(rng)).replace("\t", " ").replace(">", "")
    ls = D.split("\n")
    if ls and ls[-1] == "":
        ls = ls[:-1]
    ls = ls or ["x"]
    ls[0] = ls[0].lstrip(" ") or "x"
    mk, sp = rng.choice(["-", "*", "+", "1.", "7)", "12.", "123456789."]), rng.randint(1, 4)
    W = len(mk) + sp
    return "\n".join([mk + " " * sp + ls[0]] + [" " * W + x for x in ls[1:]]) + "\n"


def tie_list(ctx: Ctx, drv: Driver, n: int) -> None:
    """the tie with block quotes and lists in the chain (driver `lblock`)"""
    from markdown_it import MarkdownIt

    rng = ctx.rng
    mds = {}
    lines, impl, meta = [], [], []
    fixed = ["- a\n- b\n", "1. a\n\n   b\n2. c\n", "-\n\n  foo\n", "- a\n  - b\n    - c\n  - d\n", "- a\n\n- b\n", "1. x\n3) y\n", "- > q\n  > r\n- s\n",
             "> - a\n> - b\nlazy\n", "para\n2. x\n", "para\n1. x\n", "para\n-\n", "- a\n***\n- b\n", "   - a\n    - b\n     - c\n      - d\n"]
    for i in range(n):
        k = i % 5
        if i < len(fixed):
            src = fixed[i]
        else:
            src = (law_doc(rng) if k == 2 else rand_l(rng)) if k < 3 else (gens.struct_doc(rng, 2) if k == 3 else next(gens.doc_stream(rng, 1, 6)))
        bits = rng.randrange(16) if i % 3 else 15
        mn = rng.choice([100, 100, 100, 20, 1, 0, 2, 3, 4])
        key = (bits, mn)
        if key not in mds:
            md = MarkdownIt("zero", {"maxNesting": mn})
            md.enable(["blockquote", "list"] + [NAMES[j] for j in range(4) if bits >> (3 - j) & 1])
            mds[key] = md
        md = mds[key]
        try:
            toks = md.parse(src)
            out = "ok " + " ".join(enc_block_tok(t) for t in toks)
        except Exception as e:  # noqa: BLE001
            out = "e:" + type(e).__name__
        lines.append(f"lblock {bits:04b} {mn} {enc(src)}")
        impl.append(out.strip())
        meta.append((src, bits, mn))
    got = drv.batch(lines)
    bad = 0
    for ln, a, b, m in zip(lines, impl, got, meta):
        ctx.corr_compared += 1
        if a != b.strip():
            bad += 1
            if bad <= 5:
                ctx.mismatch("block sub-parser with block quotes and lists: implementation and model differ",
                             {"input": m[0], "enabled": ["blockquote", "list"] + [NAMES[j] for j in range(4) if m[1] >> (3 - j) & 1], "maxNesting": m[2],
                              "impl": a[:800], "model": b.strip()[:800], "request": ln[:400]})
    ctx.cov["lblock_documents_compared"] = len(lines)


def tie(ctx: Ctx, drv: Driver, n: int) -> None:
    from markdown_it import MarkdownIt

    rng = ctx.rng
    mds = {}
    lines, impl, meta = [], [], []
    for i in range(n):
        k = i % 5
        src = rand_mini(rng) if k < 3 else (gens.struct_doc(rng, 1) if k == 3 else next(gens.doc_stream(rng, 1, 6)))
        bits = rng.randrange(16) if i % 3 else 15
        mn = rng.choice([100, 100, 100, 20, 1, 0, 2])
        key = (bits, mn)
        if key not in mds:
            md = MarkdownIt("zero", {"maxNesting": mn})
            on = [NAMES[j] for j in range(4) if bits >> (3 - j) & 1]
            if on:
                md.enable(on)
            mds[key] = md
        md = mds[key]
        try:
            toks = md.parse(src)
            out = "ok " + " ".join(enc_block_tok(t) for t in toks)
        except Exception as e:  # noqa: BLE001
            out = "e:" + type(e).__name__
        lines.append(f"miniblock {bits:04b} {mn} {enc(src)}")
        impl.append(out.strip())
        meta.append((src, bits, mn))
    got = drv.batch(lines)
    bad = 0
    for ln, a, b, m in zip(lines, impl, got, meta):
        ctx.corr_compared += 1
        if a != b.strip():
            bad += 1
            if bad <= 5:
                ctx.mismatch("block sub-parser (code/fence/hr/heading/paragraph): implementation and model differ",
                             {"input": m[0], "enabled": [NAMES[j] for j in range(4) if m[1] >> (3 - j) & 1], "maxNesting": m[2],
                              "impl": a[:600], "model": b.strip()[:600], "request": ln[:400]})
    ctx.cov["miniblock_documents_compared"] = len(lines)


HTML_LINES = ["<div>", "</div>", "<pre>", "</pre>", "<pre>x</pre>", "<script>", "</script>", "<!-- c", "-->", "<!-- c -->", "<?php", "?>", "<!DOCTYPE x>", "<!x", ">",
              "<![CDATA[", "]]>", "<b>x</b>", "<b>", "<hr/>", "<a href=\"x\">", "</a>", "<a b='c'>  ", "<p", "<P>", "<ſcript>", "<TEXTAREA>", "</Style>", "<style\t", "<x-y z>",
              "<div", " <div>", "   <pre>", "    <pre>", "<", "<>", "<1>", "<div>x", "<table>", "<li>", "</ul >", "<img src=x /> y", "<!--", "<!", "<?", "<a\xa0b=c>"]
SETEXT_LINES = ["===", "---", "=", "-", "== ", "--  ", "=== x", "--- x", "= =", "- -", "  ===", "   ---", "    ===", "\t===", "=\t", "-\t ", "===\xa0", "title", "two words", "> ===", "- ===",
                "  lazy", "***", "# h", "```", "    code", "1. x", "- a", "> q", ""]


HTML_BLOCKS = [["<!-- a", "b", "c -->"], ["<script>", "let x = 1;", "", "y", "</script>"], ["<pre>", "  p", "</pre> tail"], ["<?php", "echo 1;", "?>"],
               ["<![CDATA[", "x", "]]>", "after"], ["<!DOCTYPE", "html>"], ["<style>", "a{}", "</style>"], ["<div>", "x", "", "y"], ["<textarea>", "\tt", "</TEXTAREA>"],
               ["title", "more", "==="], ["t1", "t2", "--- "], ["<b>", "x"]]


def rand_more(rng) -> str:
    if rng.random() < 0.35:
        # a multi-line HTML block / setext heading wrapped as a whole in a container (every line behind the container's prefix)
        blk = rng.choice(HTML_BLOCKS)
        first, rest = rng.choice([("> ", "> "), ("> > ", "> > "), ("- ", "  "), ("1. ", "   "), ("- > ", "  > "), ("> - ", ">   "), (">", ">"), ("   ", "   ")])
        ls = [first + blk[0]] + [rest + x for x in blk[1:]]
        pre = [rng.choice(LINES + SETEXT_LINES)] if rng.random() < 0.4 else []
        post = [rng.choice(LINES + HTML_LINES)] if rng.random() < 0.5 else []
        return "\n".join(pre + ls + post) + rng.choice(TAILS)
    n = rng.randint(0, 8)
    out = []
    for _ in range(n):
        k = rng.random()
        if k < 0.3:
            out.append(rng.choice(HTML_LINES))
        elif k < 0.55:
            out.append(rng.choice(SETEXT_LINES))
        elif k < 0.75:
            out.append(rng.choice(LINES))
        else:
            out.append(rng.choice(["> ", "- ", "  ", "1. ", ">", "   ", "    ", "> > ", "- > "]) + rng.choice(HTML_LINES + SETEXT_LINES))
    return "\n".join(out) + rng.choice(TAILS)


MORE_NAMES = NAMES + ["html_block", "lheading"]


def tie_more(ctx: Ctx, drv: Driver, n: int) -> None:
    """the tie with html_block and lheading in the chain as well (driver `mblock`): nine of the eleven block rules, the `html`
    option on or off"""
    from markdown_it import MarkdownIt

    rng = ctx.rng
    mds = {}
    lines, impl, meta = [], [], []
    fixed = ["a\n===\n", "a\nb\n---\nc\n", "<div>\nx\n\ny\n", "<pre>\n\nx\n</pre>\ny\n", "para\n<div>\n", "para\n<b>\n", "- a\n  ===\n", "> a\n===\n", "> a\n> ===\n",
             "<!-- x\n-->z\nq\n", "- <pre>\n\t\n  x</pre>\n", "- <pre>\n    \n  x</pre>\n", "1. <!--\n \t\n   -->\n", "a\n    ===\n===\n", "- <div>\n\n  x\n", "a\n- ===\n", "a\n***\n===\n", "===\n", "a\n\n===\n", "<div>", "<div>\n", "a\n=== \n"]
    for i in range(n):
        k = i % 5
        if i < len(fixed):
            src = fixed[i]
        else:
            src = rand_more(rng) if k < 3 else (gens.struct_doc(rng, 2) if k == 3 else next(gens.doc_stream(rng, 1, 6)))
        if i >= len(fixed) and rng.random() < 0.3:
            src = blankify(rng, src)
        bits = rng.randrange(64) if i % 3 else 63
        html_on = rng.random() < 0.75
        mn = rng.choice([100, 100, 100, 20, 1, 0, 2, 3, 4])
        key = (bits, html_on, mn)
        if key not in mds:
            md = MarkdownIt("zero", {"maxNesting": mn, "html": html_on})
            md.enable(["blockquote", "list"] + [MORE_NAMES[j] for j in range(6) if bits >> (5 - j) & 1])
            mds[key] = md
        md = mds[key]
        try:
            toks = md.parse(src)
            out = "ok " + " ".join(enc_block_tok(t) for t in toks)
        except Exception as e:  # noqa: BLE001
            out = "e:" + type(e).__name__
        lines.append(f"mblock {bits:06b}{1 if html_on else 0} {mn} {enc(src)}")
        impl.append(out.strip())
        meta.append((src, bits, html_on, mn))
    got = drv.batch(lines)
    bad = 0
    kinds = {}
    for ln, a, b, m in zip(lines, impl, got, meta):
        ctx.corr_compared += 1
        for ty in ("html_block", "heading_open", "blockquote_open", "bullet_list_open"):
            if enc(ty) + "|" in a:
                kinds[ty] = kinds.get(ty, 0) + 1
        if a != b.strip():
            bad += 1
            if bad <= 5:
                ctx.mismatch("block sub-parser with html_block and lheading: implementation and model differ",
                             {"input": m[0], "enabled": ["blockquote", "list"] + [MORE_NAMES[j] for j in range(6) if m[1] >> (5 - j) & 1], "html": m[2],
                              "maxNesting": m[3], "impl": a[:800], "model": b.strip()[:800], "request": ln[:400]})
    ctx.cov["mblock_documents_compared"] = len(lines)
    ctx.cov["mblock_streams_with"] = kinds


BLANKS = ["", " ", "\t", "  ", " \t", "\t ", "   \t", "    ", "\t\t", "  \t  ", " \t \t", "     ", "\t  \t"]


def blankify(rng, src: str) -> str:
    """replace some blank lines / insert whitespace-only lines spelled with spaces and tabs (their `sCount` is read by the rules
    that compare a line's indentation with `blkIndent` before asking whether the line is empty)"""
    ls = src.split("\n")
    for i in range(len(ls)):
        if ls[i].strip(" \t") == "" and rng.random() < 0.7:
            ls[i] = rng.choice(BLANKS)
        elif rng.random() < 0.12:
            ls.insert(i, rng.choice(BLANKS))
    return "\n".join(ls)


def tie_linescan(ctx: Ctx, drv: Driver, n: int) -> None:
    """`StateBlock.__init__` against the model's `scanGo`: every entry of the five line tables, for documents of every generator
    plus whitespace-only lines in every spelling (driver `linescan`)"""
    from markdown_it import MarkdownIt
    from markdown_it.rules_block.state_block import StateBlock
    from markdown_it.rules_core.normalize import NEWLINES_RE, NULL_RE

    rng = ctx.rng
    md = MarkdownIt("zero")
    lines, impl, meta = [], [], []
    for i in range(n):
        k = i % 6
        src = (rand_more(rng) if k == 0 else rand_l(rng) if k == 1 else rand_q(rng) if k == 2 else rand_mini(rng) if k == 3
               else gens.struct_doc(rng, 2) if k == 4 else next(gens.doc_stream(rng, 1, 6)))
        if rng.random() < 0.6:
            src = blankify(rng, src)
        src = NULL_RE.sub("\uFFFD", NEWLINES_RE.sub("\n", src))
        try:
            st = StateBlock(src, md, {}, [])
            recs = []
            for ln in range(st.lineMax):
                b, e = st.bMarks[ln], st.eMarks[ln]
                recs.append(f"{e - b},{st.tShift[ln]},{st.sCount[ln]},{st.bsCount[ln]},{1 if src[e:e + 1] == chr(10) else 0}")
            out = "ok " + " ".join(recs)
        except Exception as ex:  # noqa: BLE001
            out = "e:" + type(ex).__name__
        lines.append(f"linescan {enc(src)}")
        impl.append(out.strip())
        meta.append(src)
    got = drv.batch(lines)
    bad = 0
    for a, b, m in zip(impl, got, meta):
        ctx.corr_compared += 1
        if a != b.strip():
            bad += 1
            if bad <= 3:
                ctx.mismatch("StateBlock line tables (len, tShift, sCount, bsCount, line feed per line): implementation and model differ",
                             {"input": m, "impl": a[:600], "model": b.strip()[:600]})
    ctx.cov["linescan_documents_compared"] = len(lines)


def tie_all(ctx: Ctx, drv: Driver, quick: bool) -> None:
    """all four ties: leaf rules, + block quotes, + lists, + html_block and lheading; and the line tables on their own"""
    tie_linescan(ctx, drv, 2000 if quick else 50000)
    tie(ctx, drv, 2000 if quick else 50000)
    tie_quote(ctx, drv, 2500 if quick else 60000)
    tie_list(ctx, drv, 3500 if quick else 100000)
    tie_more(ctx, drv, 3000 if quick else 80000)
