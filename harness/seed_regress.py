"""Re-run every seeded change under /verif/seeded against its property's quick check: each must be reported (exit 1),
and the clean tree must pass afterwards.  usage: /venv/bin/python -m harness.seed_regress [names...]"""
from __future__ import annotations

import json
import subprocess
import sys
from pathlib import Path

import os

ROOT = Path(__file__).resolve().parent.parent
REPO = os.environ.get("VERIF_REPO", "/repo")     # a background run works on its own snapshot of /repo (vp run --with-repo)


def sh(cmd):
    return subprocess.run(cmd, shell=True, capture_output=True, text=True)


def main() -> int:
    want = set(sys.argv[1:])
    res = {}
    assert sh(f"git -C {REPO} status --porcelain").stdout.strip() == "", f"{REPO} is not clean"
    for d in sorted((ROOT / "seeded").iterdir()):
        if not (d / "patch.diff").exists() or (want and d.name not in want):
            continue
        meta = json.loads((d / "meta.json").read_text())
        pid = meta["property"]
        checks = [pid] + [c for c in meta.get("detected_by", []) if c != pid]
        ap = sh(f"git -C {REPO} apply {d / 'patch.diff'}")
        if ap.returncode != 0:
            res[d.name] = "patch does not apply"
            continue
        try:
            got = []
            for c in checks:
                p = sh(f"cd {ROOT} && ./check {c}")
                got.append((c, p.returncode, "no-failing-input-found" in p.stdout))
                if c == pid and p.returncode == 1:
                    break
        finally:
            sh(f"git -C {REPO} checkout -- .")
            sh(f"git -C {ROOT} checkout -- evidence")      # evidence written while a seeded change was applied is not evidence
        res[d.name] = got
        print(d.name, got, flush=True)
    missed = [k for k, v in res.items() if not (isinstance(v, list) and any(rc == 1 for _, rc, _ in v))]
    own_missed = [k for k, v in res.items() if isinstance(v, list) and v and v[0][1] != 1]
    print("MISSED:", missed)
    print("NOT-BY-OWN-CHECK:", own_missed)
    out = ROOT / "seeded" / "REGRESSION.json"
    merged = json.loads(out.read_text()) if (want and out.exists()) else {}
    merged.update({k: v for k, v in res.items()})
    out.write_text(json.dumps(merged, indent=1))
    return 1 if missed else 0


if __name__ == "__main__":
    sys.exit(main())
