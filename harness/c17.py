"""C17 — equivalent encodings parse identically: line endings, NUL, structural tabs.

Proof: lean/MdIt/Props/C17.lean — crlf_same, cr_same, normalize_mixed (any mixture of LF/CRLF/CR
spellings), normalize_clean (no CR/NUL survives), nul_like_fffd, indent_cols, marker_tab (block
quote marker arithmetic depends only on the absolute column the blank run reaches, at any depth).
Tie: `normalize` vs the real core rule on generated strings; the block-quote rule's per-line offset
arithmetic traced on the live rule (entry/exit records of every quoted line) vs `quoteOffsets`;
T1 pins that `normalize` is the first core rule.
Oracle: tokens+HTML under the three encodings and mixtures; NUL vs U+FFFD; (a) tabs in leading
whitespace vs column-exact expansion; (b) constructed lines of <= 3 container segments, every blank
run spelled with spaces vs tabs ending on tab stops — also stacked into multi-line documents.
"""
from __future__ import annotations

import itertools
import re

from .common import Ctx, Driver, Finding, enc
from . import gens

RULE = (
    "documents from G-doc/spec under the LF/CRLF/CR/mixed encodings x 4 configurations; NUL vs U+FFFD; "
    "(a) leading-tab expansion on all documents; (b) constructed lines of 1-3 container segments "
    "(indent 0-3, marker > - 1., 1-4 blank columns) x leaves, all tab spellings whose tabs end on tab stops "
    "(quick: exhaustive for <=2 segments + random 3-segment sample; thorough: exhaustive), and 2-3 line "
    "stacks of such lines; a case is (document, variant); non-trivial = the variant differs from the base "
    "string and contains a container or a line ending; distinct by (document, variant)."
)

MARKERS = [">", "-", "1."]


def tok_proj(tokens):
    out = []
    for t in tokens:
        out.append((t.type, t.tag, t.nesting, t.level, tuple(t.map) if t.map else None, t.markup, t.info, t.content,
                    tuple(sorted((k, str(v)) for k, v in t.attrs.items())),
                    tuple(tok_proj(t.children)) if t.children is not None else None))
    return out


def struct_proj(tokens):
    """structure without verbatim whitespace: types/nesting/maps/levels; text content except code"""
    out = []
    for t in tokens:
        kids = None
        if t.children is not None:
            kids = tuple((c.type, c.nesting, c.level,
                          re.sub(r"[ \t]+", " ", c.content) if c.type not in ("code_inline", "html_inline") else None)
                         for c in t.children)
        content = None if t.type in ("code_block", "fence", "html_block", "inline") else t.content
        out.append((t.type, t.nesting, t.level, tuple(t.map) if t.map else None, t.markup.strip(), content, kids))
    return out


VERB = re.compile(r"<pre>.*?</pre>|<code>.*?</code>", re.S)


def html_proj(h: str) -> str:
    """HTML modulo verbatim blocks and modulo the spelling of blank runs inside text (a blank run that
    ends up inside paragraph text, e.g. on a lazy continuation line, is not structural whitespace)"""
    return re.sub(r"[ \t]+", " ", VERB.sub("<verbatim/>", h))


def expand_leading(src: str) -> str:
    out = []
    for line in src.split("\n"):
        i, col = 0, 0
        while i < len(line) and line[i] in " \t":
            col = col + (4 - col % 4) if line[i] == "\t" else col + 1
            i += 1
        out.append(" " * col + line[i:])
    return "\n".join(out)


def mixed(rng, s: str) -> str:
    out = []
    i = 0
    prev_cr = False
    while i < len(s):
        c = s[i]
        if c == "\n":
            k = rng.randrange(3)
            if prev_cr and k == 0:
                k = 1  # a lone CR directly before an LF spelling would read as one CR LF
            if k == 0:
                out.append("\n")
                prev_cr = False
            elif k == 1:
                out.append("\r\n")
                prev_cr = False
            else:
                out.append("\r")
                prev_cr = True
        else:
            out.append(c)
            prev_cr = False
        i += 1
    return "".join(out)


def build(segs, leaf):
    parts = []
    for ind, m, bl in segs:
        if ind:
            parts.append(("b", ind))
        parts.append(("t", m))
        parts.append(("b", bl))
    parts.append(("t", leaf))
    out = []
    for p in parts:
        if out and out[-1][0] == "b" and p[0] == "b":
            out[-1] = ("b", out[-1][1] + p[1])
        else:
            out.append(p)
    return out


def spell(parts, tabmask):
    s = ""
    col = 0
    bi = 0
    used = False
    for kind, v in parts:
        if kind == "t":
            s += v
            col += len(v)
        else:
            end = col + v
            usetab = tabmask[bi]
            bi += 1
            while col < end:
                nxt = col + 4 - col % 4
                if usetab and nxt <= end:
                    s += "\t"
                    col = nxt
                    used = True
                else:
                    s += " "
                    col += 1
    return s, used


def family_lines(k, leaves=("x", "- y", "# h")):
    for segs in itertools.product(itertools.product(range(0, 4), MARKERS, range(1, 5)), repeat=k):
        for leaf in leaves:
            parts = build(segs, leaf)
            nb = sum(1 for p in parts if p[0] == "b")
            base, _ = spell(parts, [False] * nb)
            vs = []
            for mask in itertools.product([False, True], repeat=nb):
                if not any(mask):
                    continue
                s, used = spell(parts, mask)
                if used:
                    vs.append(s)
            yield base, vs


def blank_family():
    """whitespace-only lines, spelled with tabs, inside multi-line constructs that stand in a container: some rules compare such a
    line's indentation (in columns) with the container's before they ask whether it is empty"""
    openers = [("- <pre>", "  x</pre>"), ("1. <!--", "   -->"), ("- <script>", "  </script>"), ("- <style>", "  </style>"), ("- <?x", "  ?>"),
               ("- <![CDATA[", "  ]]>"), ("- <!X", "  >"), ("- ```", "  ```"), ("-     code", "      more"), ("- a", "  b"), ("> <pre>", "> </pre>"),
               ("1. a", "   b"), ("- - <pre>", "    y</pre>"), ("   <pre>", "   </pre>"), ("- > a", "  > b"), ("- <div>", "  </div>")]
    blanks = ["\t", " \t", "  \t", "   \t", "\t ", "\t\t", " \t \t", "  \t  ", "\t   "]
    for op, cl in openers:
        for b in blanks:
            for pre in ("", "> " if not op.startswith(">") else ""):
                yield "\n".join(pre + x for x in (op, b, cl)) + "\n"
            yield op + "\n" + b + "\n" + b + "\n" + cl + "\n"


def same_modulo_verbatim(md, a: str, b: str):
    ta, tb = md.parse(a), md.parse(b)
    if any(t.type == "html_block" for t in ta) or any(t.type == "html_block" for t in tb):
        return True  # raw HTML blocks are verbatim: structure is compared by struct_proj
    ha, hb = md.render(a), md.render(b)
    return ha == hb or html_proj(ha) == html_proj(hb)


class QuoteTrace:
    """per-call refinement trace of the block quote rule's marker arithmetic"""

    def __init__(self, md):
        self.md = md
        self.stack = []
        self.records = []  # (fixed, bs, sc, after, got)
        rule = next(r for r in md.block.ruler.__rules__ if r.name == "blockquote")
        orig = rule.fn
        trace = self

        def wrapped(state, startLine, endLine, silent):
            if silent:
                return orig(state, startLine, endLine, silent)
            snap = (startLine, endLine, list(state.bMarks), list(state.tShift), list(state.sCount), list(state.bsCount),
                    state.blkIndent)
            trace.stack.append(snap)
            try:
                return orig(state, startLine, endLine, silent)
            finally:
                if trace.stack and trace.stack[-1] is snap:
                    trace.stack.pop()

        md.block.ruler.at("blockquote", wrapped, {"alt": list(rule.alt)})
        orig_tok = md.block.tokenize

        def tok(state, startLine, endLine):
            if trace.stack and state.parentType == "blockquote" and trace.stack[-1][0] == startLine:
                s0, e0, bM, tS, sC, bsC, blk = trace.stack.pop()
                src = state.src
                for ln in range(startLine, endLine):
                    p = bM[ln] + tS[ln]
                    if p < len(src) and p < state.eMarks[ln] and src[p] == ">" and (ln == startLine or sC[ln] >= blk):
                        after = src[p + 1: state.eMarks[ln]]
                        got = (state.sCount[ln], state.bsCount[ln], state.bMarks[ln] + state.tShift[ln] - (p + 1))
                        trace.records.append((bsC[ln], sC[ln], after, got))
                    else:
                        break_after_lazy = True  # lazy continuation / terminated lines carry no marker
                trace.stack.append(None)  # keep depth bookkeeping aligned with wrapped()'s finally
                try:
                    return orig_tok(state, startLine, endLine)
                finally:
                    if trace.stack and trace.stack[-1] is None:
                        trace.stack.pop()
            return orig_tok(state, startLine, endLine)

        md.block.tokenize = tok


def run(ctx: Ctx) -> None:
    from markdown_it import MarkdownIt
    from markdown_it import parser_core

    quick = ctx.quick()
    rng = ctx.rng
    # T1: normalize must be the first core rule (the corollary "parse = parse' ∘ normalize" rests on it)
    if parser_core._rules[0][0] != "normalize":
        ctx.mismatch("T1: `normalize` is not the first core rule", {"core_rules": [r[0] for r in parser_core._rules]})
    cfgs = [gens.FIXED_CFGS[0], gens.FIXED_CFGS[1], gens.FIXED_CFGS[3], gens.FIXED_CFGS[4]]
    mds = [gens.make_md(c) for c in cfgs]
    docs = [d for d in gens.doc_stream(rng, 500 if quick else 12000, 7)]
    drv = Driver()
    try:
        # ---- tie: normalize
        from markdown_it.rules_core.normalize import normalize as real_norm

        class S:
            pass
        strs = []
        for d in docs[: 400 if quick else 6000]:
            v = rng.choice([d, mixed(rng, d.replace("\r", "")), d.replace("\n", "\r\n"), d + "\r", "\r\n\r" + d, d.replace("a", "\x00")])
            strs.append(v)
        strs += ["\r", "\r\n", "\n\r", "\r\r\n\n", "\x00", "a\x00\r\nb", ""]
        got = drv.batch(["normalize " + enc(s) for s in strs])
        for s, g in zip(strs, got):
            st = S()
            st.src = s
            real_norm(st)
            ctx.corr_compared += 1
            if enc(st.src) != g:
                ctx.mismatch("normalize: implementation and model differ", {"input": s, "impl": st.src, "model": g})
        # ---- oracle: encodings
        for i, d in enumerate(docs):
            d0 = d.replace("\r", "")
            md = mds[i % len(mds)]
            try:
                base_t, base_h = tok_proj(md.parse(d0)), md.render(d0)
            except Exception:
                continue
            for name, v in (("crlf", d0.replace("\n", "\r\n")), ("cr", d0.replace("\n", "\r")), ("mixed", mixed(rng, d0))):
                ctx.count((d0, name), nontrivial=("\n" in d0 and v != d0))
                try:
                    ok = tok_proj(md.parse(v)) == base_t and md.render(v) == base_h
                except Exception as e:
                    ok = False
                if not ok:
                    ctx.fail("line-endings", f"{name} encoding parses differently from LF", {"input": d0, "variant": v, "cfg": gens.cfg_key(cfgs[i % len(cfgs)])})
                    break
            if "\x00" in d0 or i % 7 == 0:
                dn = d0 if "\x00" in d0 else d0.replace("a", "\x00").replace(" ", "\x00 ", 1)
                try:
                    if tok_proj(md.parse(dn)) != tok_proj(md.parse(dn.replace("\x00", "�"))):
                        ctx.fail("nul", "NUL does not behave like U+FFFD", {"input": dn})
                except Exception:
                    pass
                ctx.count((dn, "nul"), nontrivial="\x00" in dn)
            # no CR / NUL in any content
            try:
                toks = md.parse(d)
                bad = [t.type for t in toks if "\r" in t.content or "\x00" in t.content or
                       any(("\r" in c.content or "\x00" in c.content) for c in (t.children or []))]
                if bad:
                    ctx.fail("cr-nul-in-content", "a CR or NUL reached a token's content", {"input": d, "tokens": bad[:3]})
            except Exception:
                pass
            # (a) leading tabs
            if "\t" in d0:
                e0 = expand_leading(d0)
                if e0 != d0:
                    ctx.count((d0, "lead-tabs"), nontrivial=True)
                    try:
                        if not same_modulo_verbatim(md, d0, e0) or struct_proj(md.parse(d0)) != struct_proj(md.parse(e0)):
                            ctx.fail("leading-tabs", "tabs in leading whitespace are not equivalent to their column-exact expansion",
                                     {"input": d0, "expanded": e0, "cfg": gens.cfg_key(cfgs[i % len(cfgs)])})
                    except Exception:
                        pass
        # ---- (b) constructed family
        md = MarkdownIt()
        fam = 0
        exhaustive_k = 2
        pool = []
        for k in (1, 2):
            for base, vs in family_lines(k):
                hb = md.render(base)
                if len(pool) < 4000 and vs:
                    pool.append((base, vs))
                for s in vs:
                    fam += 1
                    ctx.count((s,), nontrivial=True)
                    if md.render(s) != hb and "<pre>" not in hb:
                        ctx.fail("marker-tabs", "a tab after a container marker is not equivalent to spaces up to the tab stop",
                                 {"input": s, "space_twin": base})
        # 3 segments: sample (quick) / exhaustive (thorough)
        if quick:
            segsp = list(itertools.product(range(0, 4), MARKERS, range(1, 5)))
            for _ in range(2500):
                segs = [rng.choice(segsp) for _ in range(3)]
                leaf = rng.choice(["x", "- y", "# h"])
                parts = build(segs, leaf)
                nb = sum(1 for p in parts if p[0] == "b")
                base, _ = spell(parts, [False] * nb)
                mask = [rng.random() < 0.6 for _ in range(nb)]
                s, used = spell(parts, mask)
                if not used:
                    continue
                fam += 1
                ctx.count((s,), nontrivial=True)
                hb = md.render(base)
                if md.render(s) != hb and "<pre>" not in hb:
                    ctx.fail("marker-tabs", "a tab after a container marker is not equivalent to spaces up to the tab stop",
                             {"input": s, "space_twin": base})
        else:
            for base, vs in family_lines(3):
                hb = md.render(base)
                for s in vs:
                    fam += 1
                    ctx.count((s,), nontrivial=True)
                    if md.render(s) != hb and "<pre>" not in hb:
                        ctx.fail("marker-tabs", "a tab after a container marker is not equivalent to spaces up to the tab stop",
                                 {"input": s, "space_twin": base})
                        break
        # stacks of 2-3 constructed lines (with blank quoted lines in between): state carried across lines
        nst = 6000 if quick else 120000
        joiners = ["\n", "\n>\n", "\n\n", "\n> \n"]
        for _ in range(nst):
            n = rng.choice([2, 2, 3])
            chosen = [rng.choice(pool) for _ in range(n)]
            js = [rng.choice(joiners) for _ in range(n - 1)]
            base = chosen[0][0]
            var = rng.choice(chosen[0][1])
            for (b, vs), j in zip(chosen[1:], js):
                base += j + b
                var += j + (rng.choice(vs) if rng.random() < 0.8 else b)
            fam += 1
            ctx.count((var,), nontrivial=True)
            hb = md.render(base)
            # blank runs that end up inside text (lazy continuation lines) or verbatim blocks may keep their spelling
            if html_proj(md.render(var)) != html_proj(hb) or \
                    [(t.type, t.level, t.map) for t in md.parse(var)] != [(t.type, t.level, t.map) for t in md.parse(base)]:
                ctx.fail("marker-tabs", "tab spelling changes blocks/nesting/maps/text of a multi-line document",
                         {"input": var, "space_twin": base})
        # ---- (c) a line of every block-starting shape, indented by every space/tab mixture, after every kind of
        # first line (what it may interrupt / continue depends on its column, never on how the blanks are spelled)
        firsts = ["Title", "- Title", "> Title", "1. Title", "Title\nmore", "- a\n\n  b", "# h", "```\ncode", "    code", "<div>", "[r]: /u", "[r]:", "> [r]: /u", "- [r]:", ""]
        indents = ["\t", " \t", "  \t", "   \t", "    \t", "\t ", "\t  ", "\t\t", " \t ", "  \t\t", "\t   ", "   \t \t"]
        shapes = ["===", "---", "- x", "* * *", "# h", "> q", "```", "~~~", "1. x", "x", "<div>", "[r2]: /v", "|a|b|", "+", "2) y", "=", "-",
                  "'T'", '"T"', "(T)", "/v 'T'", "/v", "<v> \"T\""]       # continuation lines of a reference definition
        nc = 0
        mdt = MarkdownIt("commonmark").enable("table")
        for f in firsts:
            for ind in indents:
                for sh in shapes:
                    for tail in ("\n", "\nz\n") + (("\n\n[r] [r2]\n",) if "[r" in f or "[r" in sh else ()):
                        d0 = (f + "\n" if f else "") + ind + sh + tail
                        e0 = expand_leading(d0)
                        nc += 1
                        ctx.count((d0, "indented-line"), nontrivial=True)
                        try:
                            for m_ in (md, mdt):
                                if not same_modulo_verbatim(m_, d0, e0) or struct_proj(m_.parse(d0)) != struct_proj(m_.parse(e0)):
                                    ctx.fail("leading-tabs", "tabs in leading whitespace are not equivalent to their column-exact expansion",
                                             {"input": d0, "expanded": e0, "cfg": "commonmark"})
                                    break
                        except Exception:
                            pass
        mdh = MarkdownIt("commonmark", {"html": True})
        nb = 0
        for d0 in blank_family():
            e0 = expand_leading(d0)
            nb += 1
            ctx.count((d0, "blank-line"), nontrivial=True)
            try:
                for m_ in (mdh, md):
                    if struct_proj(m_.parse(d0)) != struct_proj(m_.parse(e0)) or not same_modulo_verbatim(m_, d0, e0):
                        ctx.fail("leading-tabs", "a whitespace-only line spelled with tabs is not equivalent to its column-exact expansion",
                                 {"input": d0, "expanded": e0, "cfg": "commonmark"})
                        break
            except Exception:
                pass
        ctx.cov["blank_line_cases"] = nb
        ctx.cov["indented_line_cases"] = nc
        ctx.cov["tab_family_variants"] = fam
        ctx.cov["tab_family_exhaustive_up_to_segments"] = 2 if quick else 3
        # ---- tie: quote marker arithmetic, traced on the live rule
        md2 = MarkdownIt()
        qt = QuoteTrace(md2)
        qdocs = [v for b, vs in pool[:: max(1, len(pool) // 600)] for v in ([b] + vs[:2])]
        qdocs += [d for d in docs if ">" in d][:300]
        qdocs += [">\ta\n>\n>  \tb", "> >\t>\tx\n>\t> y", " >  \t- a\n >\t\tb"]
        for d in qdocs:
            try:
                md2.parse(d)
            except Exception:
                pass
        recs = qt.records
        got = drv.batch([f"quote 1 {bs} {max(sc, 0)} {enc(after)}" for bs, sc, after, _ in recs])
        for (bs, sc, after, impl), g in zip(recs, got):
            ctx.corr_compared += 1
            if sc < 0:
                continue
            want = ",".join(map(str, impl))
            if want != g:
                ctx.mismatch("block quote marker arithmetic: live rule and model differ",
                             {"bsCount": bs, "sCount": sc, "after_marker": after, "impl": want, "model": g})
        ctx.cov["quote_marker_records"] = len(recs)
        if recs:
            ctx.sample({"quote_record": {"bsCount": recs[0][0], "sCount": recs[0][1], "after": recs[0][2], "result": recs[0][3]}})
        # tie of the modelled sub-parsers (q_line_endings / q_nul are theorems about exactly these models)
        from . import miniblock
        miniblock.tie_all(ctx, drv, quick)
        from . import pipeline
        pipeline.tie_full(ctx, drv, 2000 if quick else 50000, ref=True)     # MarkdownIt.parse end to end, reference rule included
    finally:
        drv.close()
    ctx.partial += [
        "C17.tabs in full (every rule depends on a line's prefix spelling only through getLines) is not a theorem: "
        "marker_tab covers the block-quote marker arithmetic, indent_cols the per-line indent; list-marker arithmetic "
        "and the congruence through all rules are decided by the oracle (exhaustive on the property's constructed family)",
        "that equal normalize results give equal parses is a corollary of the pipeline shape (normalize first; pinned by T1)",
    ]


def search(ctx: Ctx):
    from markdown_it import MarkdownIt

    md = MarkdownIt()
    for k in (1, 2):
        for base, vs in family_lines(k):
            hb = md.render(base)
            for s in vs:
                if md.render(s) != hb and "<pre>" not in hb:
                    return Finding("marker-tabs", "tab after a container marker not equivalent to spaces", {"input": s, "space_twin": base})
    for d0 in blank_family():
        e0 = expand_leading(d0)
        try:
            if struct_proj(md.parse(d0)) != struct_proj(md.parse(e0)):
                return Finding("leading-tabs", "a whitespace-only line spelled with tabs is not equivalent to its column-exact expansion",
                               {"input": d0, "expanded": e0, "cfg": "commonmark"})
        except Exception:
            pass
    for d in gens.doc_stream(ctx.rng, 3000, 6):
        d0 = d.replace("\r", "")
        try:
            if tok_proj(md.parse(d0.replace("\n", "\r\n"))) != tok_proj(md.parse(d0)):
                return Finding("line-endings", "crlf encoding parses differently from LF", {"input": d0})
        except Exception:
            pass
    return None


def replay(ctx: Ctx, obj: dict) -> bool:
    from markdown_it import MarkdownIt

    md = MarkdownIt()
    if "space_twin" in obj:
        return html_proj(md.render(obj["input"])) == html_proj(md.render(obj["space_twin"]))
    if "variant" in obj:
        return tok_proj(md.parse(obj["variant"])) == tok_proj(md.parse(obj["input"]))
    return True
