"""C15 — tokens survive serialisation and tree conversion; rendering is repeatable.

Proof: lean/MdIt/Props/C15.lean — dict_roundtrip (both attribute formats, children on/off, any
nesting depth), tree_roundtrip (every successful build flattens to the identical sequence),
walkList_sublist (walk follows stream order).
Tie: the three operations on token streams of generated documents under generated configurations,
model vs implementation through the driver (`dictrt`, `tree`), field by field.
Oracle: round trip equality + same HTML; to_tokens identity; walk/sibling/parent consistency;
render twice; tokens unchanged by render except image alt (idempotent).
"""
from __future__ import annotations

import copy

from .common import Ctx, Driver, Finding
from . import gens
from .tokcodec import enc_toks, enc_tok, supported

RULE = (
    "token streams of generated documents (G-doc + spec/fixture mutations + malformed) under generated "
    "configurations (presets x rule subsets x options incl. store_labels/inline_definitions); a case is "
    "(stream, operation); non-trivial = the stream contains a token with children, int attrs or meta; "
    "distinct by (document, configuration)."
)


def check_stream(ctx: Ctx, md, src, tokens, env):
    from markdown_it.token import Token
    from markdown_it.tree import SyntaxTreeNode

    info = {"input": src, "cfg": getattr(md, "_verif_cfg", None)}
    # --- dict round trip, four format combinations
    for up in (True, False):
        for ch in (True, False):
            for t in tokens:
                try:
                    t2 = Token.from_dict(t.as_dict(children=ch, as_upstream=up))
                except Exception as e:
                    ctx.fail("dict-roundtrip", f"from_dict(as_dict(children={ch}, as_upstream={up})) raised {type(e).__name__}",
                             {**info, "token": t.type})
                    return
                if t2 != t:
                    ctx.fail("dict-roundtrip", f"from_dict(as_dict(children={ch}, as_upstream={up})) is not an equal token",
                             {**info, "token": t.type})
                    return
    rt = [Token.from_dict(t.as_dict()) for t in tokens]
    html1 = md.renderer.render(copy.deepcopy(tokens), md.options, dict(env))
    if md.renderer.render(rt, md.options, dict(env)) != html1:
        ctx.fail("dict-roundtrip", "a round-tripped stream renders differently", info)
        return
    # --- tree
    try:
        root = SyntaxTreeNode(tokens)
    except Exception as e:
        ctx.fail("tree-build", f"SyntaxTreeNode(tokens) raised {type(e).__name__}", info)
        return
    flat = root.to_tokens()
    if len(flat) != len(tokens) or any(a is not b for a, b in zip(flat, tokens)):
        ctx.fail("tree-roundtrip", "to_tokens() is not the identical token sequence", info)
        return
    # walk follows stream order (openers/leaves, descending into children of leaves)
    def stream_order(ts):
        for t in ts:
            if t.nesting != -1:
                yield t
            if t.children:
                yield from stream_order(t.children)
    walked = [n for n in root.walk(include_self=False)]
    wt = [(n.token or n.nester_tokens.opening) for n in walked]
    so = list(stream_order(tokens))
    if len(wt) != len(so) or any(a is not b for a, b in zip(wt, so)):
        ctx.fail("tree-walk", "walk() does not follow stream order", info)
        return
    for n in [root] + walked:
        kids = n.children
        for i, k in enumerate(kids):
            ok = (k.parent is n and k.siblings is kids
                  and k.previous_sibling is (kids[i - 1] if i > 0 else None)
                  and k.next_sibling is (kids[i + 1] if i + 1 < len(kids) else None))
            if not ok:
                ctx.fail("tree-links", "parent/children/sibling links are inconsistent", info)
                return
    # --- repeatable rendering
    before = [t.as_dict() for t in tokens]
    h1 = md.renderer.render(tokens, md.options, dict(env))
    mid = [t.as_dict() for t in tokens]
    h2 = md.renderer.render(tokens, md.options, dict(env))
    after = [t.as_dict() for t in tokens]
    if h1 != h2 or h1 != html1:
        ctx.fail("render-repeat", "rendering the same token list twice gives different output", {**info, "first": h1[:300], "second": h2[:300]})
        return
    if mid != after:
        ctx.fail("render-repeat", "a second render changed the tokens again", info)
        return

    def strip_alt(d):
        if d.get("type") == "image" and d.get("attrs"):
            d = dict(d)
            d["attrs"] = [kv for kv in d["attrs"] if kv[0] != "alt"]
        if d.get("children"):
            d = dict(d)
            d["children"] = [strip_alt(c) for c in d["children"]]
        return d
    if [strip_alt(d) for d in before] != [strip_alt(d) for d in after]:
        ctx.fail("render-mutates", "rendering changed a token field other than the image alt attribute", info)


def run(ctx: Ctx) -> None:
    quick = ctx.quick()
    rng = ctx.rng
    n = 700 if quick else 25000
    cfgs = list(gens.FIXED_CFGS)
    mds = []
    for c in cfgs:
        md = gens.make_md(c)
        md._verif_cfg = gens.cfg_key(c)
        mds.append(md)
    lines_d, exp_d, lines_t, exp_t, metas = [], [], [], [], []
    from markdown_it.tree import SyntaxTreeNode

    # ---- delimiter-heavy inline text (emphasis / strikethrough post-processing retypes tokens in place): every stream it yields
    #      converts to a tree and back; bounded-exhaustive over short concatenations, plus random longer ones, strikethrough on
    from markdown_it import MarkdownIt
    dmd = MarkdownIt("js-default")
    dmd._verif_cfg = "js-default"
    dsrc = list(gens.delim_sweep(4 if quick else 5)) + [gens.rand_delims(rng) for _ in range(300 if quick else 6000)]
    for src in dsrc:
        env = {}
        try:
            tokens = dmd.parse(src, env)
        except Exception:
            continue
        ctx.count((src, "delims"), nontrivial=any(t.children and len(t.children) > 1 for t in tokens))
        check_stream(ctx, dmd, src, tokens, env)

    # ---- the same family under configurations that switch second-chain rules off one by one (the property says "under all
    #      configurations": with fragments_join off the levels of nested pairs are the tokenizer's, not the recomputed ones)
    for off in (["fragments_join"], ["balance_pairs"], ["fragments_join", "balance_pairs"], ["emphasis"], ["strikethrough"]):
        omd = MarkdownIt("js-default")
        for name in off:
            try:
                omd.inline.ruler2.disable(name)
            except Exception:
                pass
        omd._verif_cfg = "js-default"
        omd._verif_ruler2_off = off
        for src in ["*a **b** c*", "*a [b](c) d*", "**a *b* c**", "~~a *b* c~~", "*a `b` c*", "[*a **b** c*](u)", "*a ![b](c) d*", "***a***", "*a*"] + dsrc[:: max(1, len(dsrc) // 60)]:
            env = {}
            try:
                tokens = omd.parse(src, env)
            except Exception:
                continue
            ctx.count((src, "ruler2-off", tuple(off)), nontrivial=True)
            before = len(ctx.findings)
            check_stream(ctx, omd, src, tokens, env)
            for f in ctx.findings[before:]:
                f.replay["ruler2_off"] = off

    # ---- documents at scale (limits and guards that only large inputs reach): tree builds and flattens back, render repeats
    from markdown_it import MarkdownIt
    big = MarkdownIt("js-default")
    scale = {"wide-table": "|" + "h|" * 258 + "\n|" + "-|" * 258 + "\n" + "|x|\n" * 256,
             "long-list": "".join(f"{i_}. item *{i_}*\n" for i_ in range(1, 1500)),
             "many-refs": "".join(f"[r{i_}]: /u{i_}\n" for i_ in range(400)) + "\n" + " ".join(f"[r{i_}]" for i_ in range(400)) + "\n",
             "deep-quote-list": "> - " * 30 + "x\n"}
    for name, src in scale.items():
        try:
            toks = big.parse(src)
        except Exception:
            continue
        ctx.count(("scale", name), nontrivial=True)
        if sum(t.nesting for t in toks) != 0:
            ctx.fail("tree-roundtrip", f"the token stream of the {name} document is not balanced (sum of nesting {sum(t.nesting for t in toks)}): "
                     "SyntaxTreeNode cannot be built", {"input": src[:200] + "…", "doc": name, "cfg": "js-default"})
            continue
        try:
            back = SyntaxTreeNode(toks).to_tokens()
            if [t.as_dict() for t in back] != [t.as_dict() for t in toks]:
                ctx.fail("tree-roundtrip", f"SyntaxTreeNode(tokens).to_tokens() differs from tokens on the {name} document", {"input": src[:200] + "…", "doc": name})
        except Exception as e:  # noqa: BLE001
            ctx.fail("tree-roundtrip", f"SyntaxTreeNode raised {type(e).__name__} on the {name} document", {"input": src[:200] + "…", "doc": name})

    for i, src in enumerate(gens.doc_stream(rng, n, 7)):
        if rng.random() < 0.25:
            c = gens.rand_cfg(rng)
            try:
                md = gens.make_md(c)
            except Exception:
                continue
            md._verif_cfg = gens.cfg_key(c)
        else:
            md = mds[i % len(mds)]
        act = md.get_active_rules()
        if md.options.get("linkify") and "linkify" in act["core"]:
            continue
        env = {}
        try:
            tokens = md.parse(src, env)
        except Exception:
            continue  # totality is C01's business
        nontriv = any(t.children or t.meta or any(isinstance(v, int) for v in t.attrs.values()) for t in tokens) or \
            any(c.type == "image" for t in tokens for c in (t.children or []))
        ctx.count((src, md._verif_cfg), nontrivial=nontriv)
        check_stream(ctx, md, src, tokens, env)
        if all(supported(t) for t in tokens) and len(tokens) < 400:
            recs = enc_toks(tokens)
            up, ch = rng.random() < 0.5, rng.random() < 0.5
            lines_d.append(f"dictrt {1 if up else 0} {1 if ch else 0} " + " ".join(recs))
            exp_d.append(" ".join(recs))
            try:
                root = SyntaxTreeNode(tokens)
            except Exception:  # noqa: BLE001  (check_stream has recorded the failure; the tie needs a tree)
                lines_d.pop()
                exp_d.pop()
                continue
            lines_t.append("tree " + " ".join(recs))
            wl = []

            def walk_top(node):
                for k in node.children:
                    wl.append(k.type if k.token else k.nester_tokens.opening.type)
                    if not k.token:
                        walk_top(k)
            walk_top(root)
            from .common import enc
            exp_t.append("ok " + " ".join(enc_toks(root.to_tokens())) + " # " + ",".join(enc(x) for x in wl))
            metas.append(src)
        if len(ctx.samples) < 3 and nontriv:
            ctx.sample({"input": src[:80], "cfg": md._verif_cfg[:80], "tokens": [t.type for t in tokens][:12]})
    # damaged streams: the tree builder must agree with the model on failure too
    import random as _r
    from markdown_it import MarkdownIt
    base = MarkdownIt().parse("> - a *b*\n\n# h\n")
    for k in range(60 if quick else 2000):
        ts = list(base)
        for _ in range(rng.randint(1, 3)):
            j = rng.randrange(len(ts))
            if rng.random() < 0.5:
                del ts[j]
            else:
                ts.insert(j, ts[rng.randrange(len(ts))])
        try:
            root = SyntaxTreeNode(ts)
            wl = []

            def walk_top(node):
                for kk in node.children:
                    wl.append(kk.type if kk.token else kk.nester_tokens.opening.type)
                    if not kk.token:
                        walk_top(kk)
            walk_top(root)
            from .common import enc
            e = "ok " + " ".join(enc_toks(root.to_tokens())) + " # " + ",".join(enc(x) for x in wl)
        except ValueError:
            e = "e:ValueError"
        lines_t.append("tree " + " ".join(enc_toks(ts)))
        exp_t.append(e)
        metas.append("<damaged stream>")
        ctx.count(("damaged", k, tuple(t.type for t in ts)), nontrivial=True)
    drv = Driver()
    try:
        for what, lines, exp in (("from_dict(as_dict)", lines_d, exp_d), ("SyntaxTreeNode", lines_t, exp_t)):
            got = drv.batch(lines)
            for ln, a, b in zip(lines, exp, got):
                ctx.corr_compared += 1
                if a != b:
                    ctx.mismatch(f"{what}: implementation and model differ", {"request": ln[:1500], "impl": a[:600], "model": b[:600]})
    finally:
        drv.close()
    ctx.partial += [
        "render_repeat (only image alt is written, idempotently) is a theorem of the renderer model in Props/C04 "
        "(C04.render_alt_idempotent) once that file is built; until then it is covered by the oracle only",
        "meta values other than str are not representable in the model's Token (such streams are checked by the oracle only)",
    ]


def search(ctx: Ctx):
    c = Ctx(ctx.pid, "quick", ctx.seed + 3)
    md = gens.make_md(gens.FIXED_CFGS[0])
    for src in gens.doc_stream(c.rng, 2000, 6):
        try:
            env = {}
            toks = md.parse(src, env)
        except Exception:
            continue
        check_stream(c, md, src, toks, env)
        if c.findings:
            return c.findings[0]
    return None


def replay(ctx: Ctx, obj: dict) -> bool:
    if "input" in obj:
        from markdown_it import MarkdownIt
        md = MarkdownIt("js-default") if obj.get("cfg") == "js-default" else gens.make_md(gens.FIXED_CFGS[0])
        for name in obj.get("ruler2_off", []):
            md.inline.ruler2.disable(name)
        env = {}
        toks = md.parse(obj["input"], env)
        c = Ctx(ctx.pid, "quick", 0)
        check_stream(c, md, obj["input"], toks, env)
        return not c.findings
    return True
