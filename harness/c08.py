"""C08 — verbatim content and recorded markup come from the source, unaltered.

Proof: lean/MdIt/Props/C08.lean — cutGo_spec / cutLine_spec (getLines, per line: only leading blanks
or container-prefix characters are removed, the rest is unaltered and in order, at most 3 pad spaces
and only after a partially consumed tab), codespan_spec / codespan_keeps, hr_markup.
Tie: every call of the real StateBlock.getLines is traced (per-line inputs: characters from bMarks to
last, tShift, bsCount, indent) and compared with `cutLine`; every code span and thematic break
produced is compared with `codeSpanContent` / `hrMarkup`.
Oracle: for every code_block / fence / html_block token, each content line is reconstructed from the
source line its map points to; markup/info/start of fence, heading, hr, list tokens are counted
against the source lines.
"""
from __future__ import annotations

import re

from .common import Ctx, Driver, Finding, enc, dec
from . import gens

RULE = (
    "documents (G-doc + indentation made of spaces, tabs and mixtures at columns 0-9, inside 0-3 containers; "
    "spec/fixture mutations) x block-rule configurations; a case is (document, configuration); non-trivial = at least "
    "one code_block/fence/html_block/code_inline/hr/heading/list token; distinct by case."
)

PREFIX_CH = set(" \t>-*+.)0123456789")
INDENTS = ["", " ", "  ", "   ", "    ", "\t", " \t", "  \t", "   \t", "    \t", "\t ", "\t\t", "     ", "      ", "  \t  "]
CONT = ["", "> ", ">", ">\t", "- ", "-\t", "1. ", "10.  ", "> > ", "> - ", "- > ", ">  ", "-   "]
LEAVES = ["code", "```", "~~~~ info \"x\"", "<div>", "</div>", "x", "", "# h #", "***", "- - -", "`a\n b`", "` `` `", "7) x", "```\tpy", "` \xa0 `", "`\x0b`", "` \u2003 `", "`  `", "` a `", "`\xa0`", "`` ` ``"]


def tab_doc(rng) -> str:
    lines = []
    cont = rng.choice(CONT)
    for _ in range(rng.randint(1, 6)):
        c = cont if rng.random() < 0.8 else rng.choice(CONT)
        lines.append(c + rng.choice(INDENTS) + rng.choice(LEAVES))
        if rng.random() < 0.2:
            lines.append(c.rstrip())
    return "\n".join(lines) + ("\n" if rng.random() < 0.8 else "")


def ol_doc(rng) -> str:
    """ordered lists (multi-digit numbers, both delimiters) whose later items are indented with spaces, tabs and
    mixtures, at top level and inside a bullet item / block quote / ordered item"""
    outer = rng.choice(["", "", "- ", "> ", "1. ", ">\t", "-   ", "> - "])
    cont = {"": "", "- ": rng.choice(["  ", "\t", " \t"]), "> ": rng.choice(["> ", ">\t", ">"]), "1. ": rng.choice(["   ", "\t"]),
            ">\t": rng.choice([">\t", "> "]), "-   ": rng.choice(["    ", "\t"]), "> - ": rng.choice([">   ", ">\t", "> \t"])}[outer]
    d = rng.choice(".)")
    n = rng.choice([0, 1, 7, 10, 99, 12345, 123456789, 3])
    lines = [outer + f"{n}{d} a"]
    for _ in range(rng.randint(1, 4)):
        n = n + 1 if rng.random() < 0.6 else rng.choice([2, 5, 40, 98765, 0])
        ind = rng.choice(["", "", " ", "  ", "\t", " \t", "   "]) if cont or True else ""
        if rng.random() < 0.15:
            lines.append(cont.rstrip(" "))
        lines.append(cont + ind + f"{n}{d}" + rng.choice([" b", "\tb", "", "  c"]))
    return "\n".join(lines) + "\n"


SPAN_RE = re.compile(r"^(?P<pre>[^`\\\[<&*_!]*)(?P<m>`+)(?P<inner>[^`]+)(?P=m)(?P<post>[^`\\\[<&*_!]*)$", re.S)


def norm(s):
    return re.sub(r"\r\n?", "\n", s).replace("\x00", "�")


def line_ok(cl: str, sl: str) -> bool:
    """content line `cl` is source line `sl` with only leading blanks / container prefix removed (≤3 pad spaces)"""
    for p in range(0, 4):
        if p > len(cl) or cl[:p] != " " * p:
            break
        rest = cl[p:]
        if sl.endswith(rest):
            removed = sl[: len(sl) - len(rest)]
            if all(ch in PREFIX_CH for ch in removed) and (p == 0 or removed.endswith("\t")):
                return True
    return False


def check(md, src):
    toks = md.parse(src)
    lines = norm(src).split("\n")
    for t in toks:
        if t.type in ("code_block", "fence", "html_block") and t.map:
            b, e = t.map
            content = t.content
            cls = content.split("\n") if content else []
            if content.endswith("\n"):
                cls = cls[:-1]
            first = b + 1 if t.type == "fence" else b
            # line for line: as many content lines as the map has lines (a fence: minus the opening line and, if present, the closing one)
            want = (e - b,) if t.type != "fence" else (e - b - 1, e - b - 2)
            if len(cls) not in want and not (t.type == "fence" and e - b == 1 and not cls):
                return ("content-line-count", t.type, t.map, len(cls))
            for i, cl in enumerate(cls):
                if first + i >= len(lines):
                    return ("content-beyond-source", t.type, t.map)
                if not line_ok(cl, lines[first + i]):
                    return ("content-altered", t.type, t.map, i, cl, lines[first + i])
        if t.type == "inline" and t.children and "`" in t.content:
            m = SPAN_RE.match(t.content)
            if m:
                inner = m.group("inner").replace("\n", " ")
                want = inner[1:-1] if (inner.startswith(" ") and inner.endswith(" ") and inner.strip(" ") != "") else inner
                got = [c.content for c in t.children if c.type == "code_inline"]
                if got != [want]:
                    return ("codespan", t.content, got, want)
        if t.type == "fence" and t.map:
            sl = lines[t.map[0]]
            m = re.search(r"(`{3,}|~{3,})", sl)
            if not m or t.markup != m.group(1):
                return ("fence-markup", t.markup, sl)
            if t.info != sl[m.end():]:
                return ("fence-info", t.info, sl)
        if t.type == "heading_open" and t.map and t.markup.startswith("#"):
            sl = lines[t.map[0]]
            m = re.search(r"#+", sl)
            if not m or m.group(0) != t.markup:
                return ("heading-markup", t.markup, sl)
        if t.type == "hr" and t.map:
            sl = lines[t.map[0]]
            ch = t.markup[:1]
            if not ch or t.markup != ch * len(t.markup) or sl.count(ch) - (1 if (ch in "-*" and re.match(r"^[ >\t]*[-*+] ", sl) and False) else 0) < len(t.markup):
                return ("hr-markup", t.markup, sl)
            # count the markers of the break itself: strip container prefixes made of other characters
            body = sl
            k = body.rfind(ch + " ") if False else None
            tail = re.search(r"([*\-_][ \t]*){3,}$", sl)
            if tail and tail.group(0).count(ch) != len(t.markup) and sl.strip(" \t>").count(ch) != len(t.markup):
                # a list marker of the same character may precede the break ("- - - -" is list + hr)
                if not any(tail.group(0)[j:].count(ch) == len(t.markup) for j in range(len(tail.group(0)))):
                    return ("hr-markup-count", t.markup, sl)
        if t.type in ("ordered_list_open",) and t.map:
            sl = lines[t.map[0]]
            m = re.search(r"(\d{1,9})[.)]", sl)
            if "start" in t.attrs and (not m or int(m.group(1)) != t.attrs["start"]) and not re.search(r"(?<!\d)0*%d[.)]" % t.attrs["start"], sl):
                return ("list-start", t.attrs.get("start"), sl)
        if t.type == "list_item_open" and (t.info or t.markup in (".", ")")):
            sl = lines[t.map[0]] if t.map else ""
            # the digits written: a digit run of the line's marker prefix directly followed by the item's delimiter
            cands = re.findall(r"(?<!\d)(\d{1,9})" + re.escape(t.markup) + r"(?=[ \t]|$)", sl) if t.markup in (".", ")") else []
            if t.info not in cands:
                return ("list-info", t.info, sl)
        if t.type in ("bullet_list_open", "list_item_open", "ordered_list_open", "blockquote_open") and t.map:
            if t.markup and t.markup not in lines[t.map[0]]:
                return ("container-markup", t.type, t.markup, lines[t.map[0]])
    return None


class Trace:
    """records every getLines call (per line) and every code span / hr produced"""

    def __init__(self):
        self.cut = []
        self.spans = []
        self.hrs = []

    def install(self, md):
        from markdown_it.rules_block.state_block import StateBlock

        tr = self
        orig = StateBlock.getLines

        def getLines(state, begin, end, indent, keepLastLF):
            res = orig(state, begin, end, indent, keepLastLF)
            parts = []
            for line in range(begin, end):
                last = state.eMarks[line] + 1 if (line + 1 < end or keepLastLF) else state.eMarks[line]
                parts.append((state.src[state.bMarks[line]:last], state.tShift[line], state.bsCount[line]))
            if len(tr.cut) < 6000:
                tr.cut.append((indent, parts, res))
            return res
        StateBlock.getLines = getLines
        self._restore = lambda: setattr(StateBlock, "getLines", orig)
        for r in list(md.inline.ruler.__rules__):
            if r.name == "backticks":
                f = r.fn

                def bt(state, silent, _f=f):
                    n0, p0 = len(state.tokens), state.pos
                    res = _f(state, silent)
                    if res and not silent and len(state.tokens) > n0 and state.tokens[-1].type == "code_inline":
                        mk = state.tokens[-1].markup
                        inner = state.src[p0 + len(mk): state.pos - len(mk)]
                        tr.spans.append((inner, state.tokens[-1].content))
                    return res
                md.inline.ruler.at("backticks", bt)
        for r in list(md.block.ruler.__rules__):
            if r.name == "hr":
                f = r.fn

                def hr(state, startLine, endLine, silent, _f=f):
                    text = state.src[state.bMarks[startLine] + state.tShift[startLine]: state.eMarks[startLine]]
                    code = state.is_code_block(startLine)
                    n0 = len(state.tokens)
                    res = _f(state, startLine, endLine, silent)
                    if not code:
                        tr.hrs.append((text, state.tokens[-1].markup if (res and not silent and len(state.tokens) > n0) else (True if res else None)))
                    return res
                md.block.ruler.at("hr", hr, {"alt": list(r.alt)})

    def restore(self):
        self._restore()


def run(ctx: Ctx) -> None:
    from markdown_it import MarkdownIt

    quick = ctx.quick()
    rng = ctx.rng
    cfgs = [gens.FIXED_CFGS[0], gens.FIXED_CFGS[1], gens.FIXED_CFGS[3], gens.FIXED_CFGS[4]]
    mds = [(gens.make_md(c), c) for c in cfgs]
    n = 3000 if quick else 80000
    tr = Trace()
    tmd = MarkdownIt("commonmark")
    tr.install(tmd)
    try:
        for i in range(n):
            src = tab_doc(rng) if i % 2 == 0 else (ol_doc(rng) if i % 7 == 1 else next(gens.doc_stream(rng, 1, 7)))
            md, cfg = mds[i % len(mds)]
            try:
                e = check(md, src)
            except Exception:
                continue
            has = any(x in src for x in ("    ", "\t", "```", "~~~", "<", "`", "#", "---", "***", "1.", "- "))
            ctx.count((src, gens.cfg_key(cfg)), nontrivial=has)
            if e:
                ctx.fail("verbatim:" + e[0], f"verbatim content / markup property violated: {e}", {"input": src, "cfg": cfg, "detail": [repr(x) for x in e]})
            elif len(ctx.samples) < 3 and "\t" in src and "code" in src:
                ctx.sample({"input": src[:80]})
            if i % 3 == 0:
                try:
                    tmd.parse(src)
                except Exception:
                    pass
    finally:
        tr.restore()
    drv = Driver()
    try:
        reqs, want, meta = [], [], []
        for indent, parts, res in tr.cut:
            exp = []
            ok = True
            for chars, tshift, bs in parts:
                reqs.append(f"cutline {tshift} {bs} {indent} {enc(chars)}")
                meta.append((indent, chars, tshift, bs))
            want.append((len(parts), res))
        got = drv.batch(reqs)
        k = 0
        for (np_, res), in zip(want):
            joined = "".join(dec(g) for g in got[k:k + np_])
            ctx.corr_compared += 1
            if joined != res:
                ctx.mismatch("getLines: implementation and model differ", {"lines": [list(map(str, m)) for m in meta[k:k + np_]], "impl": res, "model": joined})
                break
            k += np_
        spans = tr.spans[:4000]
        got = drv.batch(["codespan " + enc(a) for a, _ in spans])
        for (a, b), g in zip(spans, got):
            ctx.corr_compared += 1
            if enc(b) != g:
                ctx.mismatch("code span content: implementation and model differ", {"inner": a, "impl": b, "model": dec(g)})
                break
        hrs = tr.hrs[:4000]
        got = drv.batch(["hr " + enc(a) for a, _ in hrs])
        for (a, b), g in zip(hrs, got):
            ctx.corr_compared += 1
            w = "N" if b is None else (None if b is True else "s" + enc(b))
            if w is None:
                if g == "N":
                    ctx.mismatch("hr: silent match on the implementation, model says no break", {"text": a})
                continue
            if w != g:
                ctx.mismatch("hr markup: implementation and model differ", {"text": a, "impl": b, "model": g})
                break
        ctx.cov["getLines_calls_traced"] = len(tr.cut)
        ctx.cov["code_spans_traced"] = len(tr.spans)
        ctx.cov["hr_calls_traced"] = len(tr.hrs)
        # tie of the modelled block sub-parser (mini_verbatim is a theorem about exactly this model)
        from . import miniblock
        miniblock.tie_all(ctx, drv, quick)
        from . import pipeline
        pipeline.tie_full(ctx, drv, 1500 if quick else 40000, table=True)     # all eleven block rules (t_verbatim / fullT_verbatim are about this model)
        # verbatim blocks behind a container prefix: the content is the content of the bare block (only the prefix is removed)
        from markdown_it import MarkdownIt
        mdq = MarkdownIt("commonmark")
        VERB = ("code_block", "fence", "html_block")
        blocks = miniblock.HTML_BLOCKS + [["```", "a", "  b", "", "c", "```"], ["~~~ x", "a", "~~~"], ["    code", "", "      more"], ["<div>", "a", "b"]]
        for blk in blocks:
            bare = [t.content for t in mdq.parse("\n".join(blk) + "\n") if t.type in VERB]
            for first, rest in (("> ", "> "), ("> > ", "> > "), ("- ", "  "), ("- > ", "  > "), ("1. ", "   ")):   # (a bare ">" swallows one following blank)
                doc = "\n".join([first + blk[0]] + [rest + x for x in blk[1:]]) + "\n"
                got = [t.content for t in mdq.parse(doc) if t.type in VERB]
                ctx.count((doc, "wrapped-verbatim"), nontrivial=True)
                if bare and got != bare:
                    ctx.fail("verbatim:container-prefix", "a verbatim block behind a container prefix does not hold the content of the bare block",
                             {"input": doc, "cfg": gens.FIXED_CFGS[0], "bare": bare, "wrapped": got})
        bad = quote_code_oracle(ctx)
        if bad:
            ctx.fail("verbatim:columns", "the content of an indented code block inside a block quote is not its source line with exactly four "
                     "columns removed behind the quote marker", bad)
    finally:
        drv.close()
    ctx.partial += [
        "that code_block / fence content *is* the stated getLines call on the lines of its map, that fence markup + info is the "
        "opening line's text and hr markup the scanned run is PROVED for the modelled sub-parser (Props/C08b.lean mini_verbatim, "
        "with cutOf_spec from cutLine_spec; model tied by the `miniblock` differential runs); inside containers (Props/C08c.lean "
        "l_verbatim: quotes and lists nested to any depth) every code_block / fence content line is, after at most pad spaces, "
        "a suffix of the source line its map points to — the nested runs see line entries whose text is the source line minus a "
        "prefix (SufLines through quoteScan and listEnter) — fence markup+info is the tail of its opening line, hr markup is read off "
        "the tail of its line; code spans end to end for the inline sub-parser text/newline/escape/backticks (Props/C08d.lean "
        "imini_codespans: every code_inline token holds codeSpanContent of exactly the text between two backtick runs of the source "
        "whose common length is its markup); html_block content and heading markup for the sub-parser with nine of the eleven block rules "
        "(Props/C08e.lean m_verbatim). For list/quote markup and ordered-list start/info it is decided by the oracle; "
        "the getLines, code-span and hr statements are theorems",
    ]


def strip_cols(line: str, start: int, n: int) -> str:
    """CommonMark: remove `n` columns of indentation from the character at column `start` on (the prefix before it holds no tab);
    a tab that is only partly consumed leaves the rest of its width as spaces"""
    col, i, need = start, start, n
    while need > 0 and i < len(line) and line[i] in " \t":
        w = 1 if line[i] == " " else 4 - col % 4
        if w > need:
            return " " * (w - need) + line[i + 1:]
        need -= w
        col += w
        i += 1
    return line[i:]


def quote_code_family():
    """an indented code block inside a block quote whose marker stands at a different column on every line, the removed indentation
    spelled with spaces and tabs: (document, expected content), the expectation computed from the columns alone"""
    import itertools
    ws = ["    ", "\t", " \t", "  \t", "   \t", "\t\t", "    \t", "\t ", "     ", "\t\t ", "  \t\t"]
    for a in itertools.product(range(4), repeat=2):
        for w in itertools.product(ws, repeat=2):
            lines = [" " * a[k] + "> " + w[k] + "xy"[k] for k in range(2)]
            exp = "".join(strip_cols(lines[k], a[k] + 2, 4) + "\n" for k in range(2))
            yield "\n".join(lines) + "\n", exp


def quote_code_oracle(ctx: Ctx):
    from markdown_it import MarkdownIt
    md = MarkdownIt("commonmark")
    n = 0
    for doc, exp in quote_code_family():
        try:
            toks = md.parse(doc)
        except Exception:
            continue
        if [t.type for t in toks] != ["blockquote_open", "code_block", "blockquote_close"]:
            continue
        n += 1
        if ctx is not None:
            ctx.count((doc, "quote-code"), nontrivial=True)
        if toks[1].content != exp:
            return {"input": doc, "cfg": gens.FIXED_CFGS[0], "want_content": exp, "got_content": toks[1].content}
    if ctx is not None:
        ctx.cov["quote_code_column_cases"] = n
    return None


def search(ctx: Ctx):
    bad = quote_code_oracle(None)
    if bad:
        return Finding("verbatim:columns", "the content of an indented code block inside a block quote is not its source line with exactly four "
                       "columns removed behind the quote marker", bad)
    c = Ctx(ctx.pid, "quick", ctx.seed + 19)
    mds = [(gens.make_md(cf), cf) for cf in (gens.FIXED_CFGS[0], gens.FIXED_CFGS[1])]
    for i in range(20000):
        src = tab_doc(c.rng) if i % 3 else ol_doc(c.rng)
        for md, cfg in mds:
            try:
                e = check(md, src)
            except Exception:
                continue
            if e:
                return Finding("verbatim:" + e[0], f"verbatim property violated: {e}", {"input": src, "cfg": cfg})
    return None


def replay(ctx: Ctx, obj: dict) -> bool:
    if "want_content" in obj:
        from markdown_it import MarkdownIt
        toks = MarkdownIt("commonmark").parse(obj["input"])
        return len(toks) > 1 and toks[1].content == obj["want_content"]
    if "bare" in obj:
        from markdown_it import MarkdownIt
        return [t.content for t in MarkdownIt("commonmark").parse(obj["input"]) if t.type in ("code_block", "fence", "html_block")] == obj["bare"]
    if "input" in obj and "cfg" in obj:
        return check(gens.make_md(obj["cfg"]), obj["input"]) is None
    return True
