"""Input generators shared by the checks (all randomness comes from the rng passed in).

G-doc    grammar-directed documents built from the repository's own constructs, mostly valid, then damaged
G-lines  bounded-exhaustive documents over a catalogue of line shapes
G-spec   inputs of the spec/fixture files shipped in /repo/tests (seeds for mutation)
G-malformed  arbitrary scalar values
G-cfg    preset x rule subset (keeping the supported core) x option values
"""
from __future__ import annotations

import itertools
import re
from pathlib import Path

from .common import REPO

WORDS = ["a", "b c", "foo", "Bar", "x1", "é", "ß", "Ǆ", "日本", "zz top", "q"]
INLINE_ATOMS = [
    "*e*", "**s**", "_e_", "__s__", "***es***", "*a **b** c*", "~~d~~", "`c`", "`` c`d ``", "` `", "`\xa0`",
    "[l](/u)", "[l](/u \"t\")", "[l](<u v> 't')", "[l][r]", "[r][]", "[r]", "![i](s)", "![i *e*](s \"t\")",
    "![i][r]", "[![i](s)](/u)", "![\\*](s)", "![&amp;](s)", "![a\\*b &lt; c](s)", "![x ![y\\_](t) z](s)", "![*e* \\[](s)", "![&#97;](s)", "<http://x.y/z?a=b&c>", "<me@x.y>", "<javascript:alert(1)>", "<b>", "</b>",
    "<a href=\"x\">", "<!-- c -->", "<?p?>", "<![CDATA[x]]>", "<!D x>", "&amp;", "&#35;", "&#x22;", "&copy;",
    "&nope;", "&#0;", "&#xD800;", "&#99999999;", "\\*", "\\\\", "\\a", "\\", "\\[", "a  \nb", "a\\\nb", "a\nb",
    "\"q\"", "'q'", "it's", "...", "--", "---", "(c)", "(tm)", "+-", "??!!", "http://a.b", "*", "_", "**", "[", "]",
    "![", "](", ")", "`", "``", "<", ">", "&", "|", "~", "~~", "#", "!", "$", "%", "@", ":", "=", "{", "}", "^",
    "\t", "  ", "\xa0", " ", "\U0001f600", "\x00", "\r", "�", "\x0b", "\x1f",
]
# characters on which Python's str predicates disagree with ASCII thinking (isdigit/isspace/lower/upper/strip)
TRAPS = ["²", "³", "①", "٣", "५", "Ⅷ", "½", "\x0b", "\x0c", "\x1c", "\x1d", "\x1e", "\x1f", "\x85", "\xa0", "\u1680", "\u2000",
         "\u2028", "\u2029", "\u202f", "\u205f", "\u3000", "\ufeff", "ǅ", "ß", "İ", "ı", "ſ", "K", "\u0301", "\u200b", "\u200d"]
TRAP_LINES = ["². x", "1³) x", "①.", "٣. x", "a\n². x", "- ²", "\x1c# h", "\xa0- x", "\u2028> q", "#\xa0h", "```\x0bpy", "[İ]: /u",
              "[i̇]", "[ß]: /u", "[SS]", "\x85", "1.\u2029x", "&#x85;", "\x0c---", "~~~\u3000x"]
BLOCK_LINES = [
    "", " ", "  ", "\t", "# h", "## h ##", "####### x", "#######", "######", "####### ", "########", "#", "#\t", "h\n===", "h\n---", "***", "---", "___", "* * *",
    " - - -", "    code", "\tcode", "     more", "```", "```py", "``` a\"b<c>", "~~~", "~~~~", "```\nx\n```", "~~~ x\n~~~",
    "<div>", "</div>", "<pre>", "</pre>", "<!-- c", "-->", "<?php", "?>", "<!DOCTYPE x>", "<![CDATA[", "]]>",
    "<script>", "</script>", "<b>x</b>", "<hr/>", "> q", ">q", ">", "> > qq", ">\t>\tx", "  > x", "- i", "* i", "+ i", "-", "- ",
    "-   i", "-    i", "-\ti", "1. o", "1) o", "10. o", "0. o", "999999999. o", "1234567890. o", "1.", "  - n", "    - n",
    "   1. n", "[r]: /u", "[r]: /u \"t\"", "[r]: <u> 't'", "[r]:", "[r]:\n/u", "[r]: /u \"t\nt\"", "[R]: /dup", "[é]: /e",
    "[r]: javascript:x", "[r]", "[ r ]", "|a|b|", "|-|-|", "a|b", "-|-", ":-:|--:", "|a\\|b|c|", "a|b|c", "x | y",
    "|:-|", "| a |", "text", "lazy", "a  ", "a\\", "\\", "&amp;", "*x", "_", "`", "``x", "[", "![", "<", "<a",
]
DAMAGE = ["> ", "- ", "* ", "+ ", "# ", "[", "]", "(", ")", "<", ">", "`", "|", "~", "\\", "&", "!", "\"", "'", "\t",
          "\r", "\x00", "�", "\xa0", " ", "\U0001f600", "\n", "\n\n", "    ", "1. "]


def rand_inline(r, n=None) -> str:
    n = n if n is not None else r.choice([1, 1, 2, 3, 4, 6])
    parts = []
    for _ in range(n):
        k = r.random()
        if k < 0.35:
            parts.append(r.choice(WORDS))
        else:
            parts.append(r.choice(INLINE_ATOMS))
        if r.random() < 0.5:
            parts.append(" ")
    return "".join(parts)


def rand_line(r) -> str:
    k = r.random()
    if k < 0.37:
        return r.choice(BLOCK_LINES)
    if k < 0.42:
        return r.choice(TRAP_LINES)
    if k < 0.6:
        return rand_inline(r) if r.random() < 0.85 else rand_inline(r) + r.choice(TRAPS) + rand_inline(r, 1)
    pre = r.choice(["", "", "> ", "- ", "1. ", "  ", "    ", "# ", "> - ", "   ", "\t", "* ", ">", "|"])
    return pre + rand_inline(r)


def rand_doc(r, maxlines=8) -> str:
    n = r.randint(0, maxlines)
    lines = []
    for _ in range(n):
        ln = rand_line(r)
        lines.append(ln)
    s = "\n".join(lines)
    if r.random() < 0.75:
        s += "\n"
    k = r.random()
    if k < 0.25 and s:
        # damage: cut, insert, duplicate/delete line, re-indent
        op = r.randrange(4)
        if op == 0:
            s = s[: r.randrange(len(s) + 1)]
        elif op == 1:
            i = r.randrange(len(s) + 1)
            s = s[:i] + (r.choice(DAMAGE) if r.random() < 0.8 else r.choice(TRAPS)) + s[i:]
        elif op == 2:
            ls = s.split("\n")
            i = r.randrange(len(ls))
            if r.random() < 0.5:
                ls.insert(i, ls[i])
            else:
                del ls[i]
            s = "\n".join(ls)
        else:
            ls = s.split("\n")
            i = r.randrange(len(ls))
            ls[i] = r.choice([" ", "  ", "   ", "    ", "\t", " \t", "     "]) + ls[i]
            s = "\n".join(ls)
    return s


LEAVES_S = [["<!-- a", "b", "c -->"], ["<script>", "let x = 1;", "", "y", "</script>"], ["<pre>", "  p", "</pre> tail"], ["<?php", "echo 1;", "?>"],
            ["<![CDATA[", "x", "]]>"], ["<!DOCTYPE", "html>"], ["<style>", "a{}", "</style>"], ["title", "more", "==="], ["t1", "t2", "--- "],
            ["# h"], ["h", "==="], ["t", "---"], ["```", "code", "", "more", "```"], ["~~~ info", "x", "~~~"], ["    code"], ["***"],
            ["<div>", "x", "</div>"], ["[r]: /u 'T'"], ["|a|b|", "|-|-|", "|1|2|"], ["<!-- c -->"], ["a", "b"], ["[r]"], ["```", "open"],
            # reference definitions whose title runs over several lines, with a backslash before the line ending
            ["[r]: /u \"a\\", "b\""], ["[r2]: /u 'x\\", "y\\", "z'"], ["[r3]:", "/u", "(t\\", "u)"], ["[r4]: /u \"one", "two\""]]


def struct_lines(r, depth=2) -> list[str]:
    """structured, mostly-valid document: leaves and containers (quotes, lists with 1-3 items holding sub-documents),
    separated by blank lines most of the time; returns its lines"""
    out: list[str] = []
    for bi in range(r.randint(1, 3)):
        k = r.random()
        if depth > 0 and k < 0.28:
            sub = struct_lines(r, depth - 1)
            form = r.choice(["> ", "> ", ">", ">  "])
            blk = [(form + ln) if ln else ">" for ln in sub]
            if r.random() < 0.15:
                blk.append(r.choice(["lazy", "  lazy more"]))
        elif depth > 0 and k < 0.56:
            mk = r.choice(["-", "*", "+", "1.", "3)", "10."])
            sp = r.choice([1, 1, 2, 3])
            W = len(mk) + sp
            blk = []
            loose = r.random() < 0.4
            for it in range(r.randint(1, 3)):
                sub = struct_lines(r, depth - 1)
                if sub and sub[0].startswith("    "):
                    sub = ["x"] + sub
                item = [mk + " " * sp + sub[0]] + [(" " * W + ln) if ln else "" for ln in sub[1:]]
                if blk and loose:
                    blk.append("")
                blk += item
                if mk[0].isdigit():
                    mk = str(int(mk[:-1]) + 1) + mk[-1]
        elif k < 0.75:
            blk = [rand_inline(r, r.randint(1, 3)) or "p"] + ([r.choice(WORDS)] if r.random() < 0.3 else [])
            blk = [b.replace("\n", " ") for b in blk]
        else:
            blk = list(r.choice(LEAVES_S))
        if out and r.random() < 0.8:
            out.append("")
        out += blk
    return out


def struct_doc(r, depth=2) -> str:
    return "\n".join(struct_lines(r, depth)) + "\n"


def rand_malformed(r, maxlen=24) -> str:
    n = r.randint(0, maxlen)
    out = []
    for _ in range(n):
        k = r.random()
        if k < 0.5:
            out.append(r.choice("\n\t >-*+#[]()<>`|~\\&!\"'_=:.0123456789ab"))
        elif k < 0.7:
            out.append(chr(r.randrange(0, 0x80)))
        elif k < 0.9:
            c = r.randrange(0x80, 0x3000)
            out.append(chr(c))
        else:
            c = r.randrange(0x10000, 0x110000)
            out.append(chr(c))
    return "".join(out)


DELIM_ATOMS = ["*", "**", "***", "_", "__", "~", "~~", "~~~", "~~~~", "[", "]", "](u)", "(u)", "![", "`", "``", "a", "b", " ",
               "\\", "\n", "<", ">", "x*", "*y", "_z", "[]", "][r]", "&amp;", "\"", "'"]


def rand_delims(r) -> str:
    """delimiter-heavy inline text: runs of * _ ~ [ ] ( ) mixed with code spans and links"""
    n = r.randint(2, 12)
    s = "".join(r.choice(DELIM_ATOMS) for _ in range(n))
    k = r.random()
    if k < 0.15:
        s = "> " + s
    elif k < 0.3:
        s = "- " + s
    elif k < 0.4:
        s = "|" + s + "|x|\n|-|-|\n|" + s + "|y|"
    elif k < 0.5:
        s = s + "\n\n[r]: /u\n"
    return s + ("\n" if r.random() < 0.7 else "")


def delim_sweep(maxlen: int, atoms=("~~", "~", "*", "[", "](u)", "a")):
    """bounded-exhaustive delimiter strings: every concatenation of up to `maxlen` atoms"""
    for k in range(1, maxlen + 1):
        for combo in itertools.product(atoms, repeat=k):
            yield "".join(combo)


_SPEC_CACHE: list[str] | None = None


def crossing_family():
    """inline runs where a delimiter pair would have to cross a link boundary: something earlier in the run (a link, an
    autolink, an image, nothing), an opener before / inside a link, a closer inside / after it, and inline constructs with
    their own delimiter scope (autolink, code span, nested link, image) in between"""
    pres = ["", "[b](u) ", "<http://p.q> ", "![i](s) ", "`k` ", "[b](u) <http://p.q> "]
    inner = ["c", "<http://x.y>", "`k`", "[n](m)", "![i](s)", "\\*", "_e_"]
    for op in ("*", "**", "_", "~~"):
        for pre in pres:
            for x in inner:
                for y in inner:
                    yield f"{op}a {pre}[{x} {y} d{op}](w)"          # opens before the link, closes inside its text
                    yield f"{pre}[{op}a {x} {y}](w) d{op}"          # opens inside, closes after
                    yield f"{op}a {pre}[{x}](w) {y} d{op}"          # control: proper nesting around a link


def spec_inputs() -> list[str]:
    """Inputs of the CommonMark spec and the fixture files shipped with the repository."""
    global _SPEC_CACHE
    if _SPEC_CACHE is not None:
        return _SPEC_CACHE
    out: list[str] = []
    try:
        import json

        p = REPO / "tests" / "test_cmark_spec" / "commonmark.json"
        if p.exists():
            out += [e["markdown"] for e in json.loads(p.read_text())]
    except Exception:
        pass
    for f in sorted((REPO / "tests" / "test_port" / "fixtures").glob("*.md")):
        try:
            text = f.read_text(encoding="utf-8")
        except Exception:
            continue
        lines = text.splitlines(keepends=True)
        section, last = 0, 0
        for i, ln in enumerate(lines):
            if ln.rstrip() == ".":
                if section == 0:
                    section = 1
                elif section == 1:
                    out.append("".join(lines[last + 1 : i]))
                    section = 2
                else:
                    section = 0
                last = i
    _SPEC_CACHE = [s for s in out if len(s) < 2000]
    return _SPEC_CACHE


def mutate(r, s: str) -> str:
    if not s:
        return r.choice(DAMAGE)
    op = r.randrange(5)
    if op == 0:
        return s[: r.randrange(len(s) + 1)]
    if op == 1:
        i = r.randrange(len(s) + 1)
        return s[:i] + r.choice(DAMAGE) + s[i:]
    if op == 2:
        i = r.randrange(len(s))
        return s[:i] + s[i + 1 :]
    if op == 3:
        return s.replace("\n", r.choice(["\r\n", "\r", "\n\n", "\n "]), 1)
    i = r.randrange(len(s))
    j = min(len(s), i + r.randint(1, 6))
    return s[:i] + s[i:j] * 2 + s[j:]


def doc_stream(r, n: int, maxlines=8):
    """Mixed stream: 33 % G-doc, 12 % structured nested documents, 15 % delimiter runs, 20 % mutated spec/fixture
    inputs, 10 % spec verbatim, 10 % malformed."""
    spec = spec_inputs()
    for _ in range(n):
        k = r.random()
        if k < 0.33 or not spec:
            yield rand_doc(r, maxlines)
        elif k < 0.45:
            yield struct_doc(r, 2 if maxlines < 7 else 3)
        elif k < 0.6:
            yield rand_delims(r)
        elif k < 0.8:
            yield mutate(r, r.choice(spec))
        elif k < 0.9:
            yield r.choice(spec)
        else:
            yield rand_malformed(r)


LINE_SHAPES = [
    "", " ", "\t", ">", "> ", ">\t", ">>", "> >", "-", "- ", "- a", "1.", "1. a", "  a", "    a", "#", "# a", "```", "~~~",
    "[a]: b", "[a]:", "[a]: <", "[a]", "[", "<div>", "<", "---", "===", "* * *", "_", "a", "a|b", "-|-", "|a|", "|-|",
]
LINE_SHAPES_EXT = LINE_SHAPES + ["> " + s for s in LINE_SHAPES[3:]] + ["- " + s for s in LINE_SHAPES[3:]] + [
    "  " + s for s in LINE_SHAPES[3:]
]


def line_docs(k: int, shapes=None):
    """all documents of exactly k lines over the catalogue, with and without final newline"""
    shapes = shapes or LINE_SHAPES
    for combo in itertools.product(shapes, repeat=k):
        s = "\n".join(combo)
        yield s
        yield s + "\n"


# ---- configurations ---------------------------------------------------------------------------

OPTIONAL_BLOCK = ["table", "code", "fence", "blockquote", "hr", "list", "reference", "html_block", "heading", "lheading"]
OPTIONAL_INLINE = ["newline", "escape", "backticks", "strikethrough", "emphasis", "link", "image", "autolink",
                   "html_inline", "entity"]
OPTIONAL_CORE = ["replacements", "smartquotes"]
QUOTES = ["“”‘’", "«»„“", ["«\xa0", "\xa0»", "‹\xa0", "\xa0›"], ["<", ">", "&", "\""], ["", "", "", ""],
          "\"\"''"]


def rand_cfg(r, html=None):
    preset = r.choice(["commonmark", "js-default", "zero", "commonmark", "js-default"])
    opts = {}
    if r.random() < 0.6:
        opts["typographer"] = r.random() < 0.6
    if r.random() < 0.4:
        opts["breaks"] = r.random() < 0.5
    if r.random() < 0.4:
        opts["xhtmlOut"] = r.random() < 0.5
    if r.random() < 0.3:
        opts["langPrefix"] = r.choice(["language-", "", "x\"<>&", "l "])
    if r.random() < 0.4:
        opts["quotes"] = r.choice(QUOTES)
    if r.random() < 0.3:
        opts["maxNesting"] = r.choice([1, 2, 3, 5, 20, 100])
    if r.random() < 0.3:
        opts["inline_definitions"] = True
    if r.random() < 0.3:
        opts["store_labels"] = True
    if html is None:
        if r.random() < 0.4:
            opts["html"] = r.random() < 0.5
    else:
        opts["html"] = html
    on, off = [], []
    mode = r.random()
    for name in OPTIONAL_BLOCK + OPTIONAL_INLINE + OPTIONAL_CORE:
        if mode < 0.4:
            continue
        p = r.random()
        if p < 0.25:
            on.append(name)
        elif p < 0.5:
            off.append(name)
    return {"preset": preset, "options": opts, "enable": on, "disable": off}


def make_md(cfg):
    from markdown_it import MarkdownIt

    md = MarkdownIt(cfg["preset"], dict(cfg["options"]) or None)
    if cfg["enable"]:
        md.enable(cfg["enable"])
    if cfg["disable"]:
        md.disable(cfg["disable"])
    return md


FIXED_CFGS = [
    {"preset": "commonmark", "options": {}, "enable": [], "disable": []},
    {"preset": "js-default", "options": {}, "enable": [], "disable": []},
    {"preset": "zero", "options": {}, "enable": [], "disable": []},
    {"preset": "js-default", "options": {"typographer": True, "breaks": True, "html": True}, "enable": [], "disable": []},
    {"preset": "commonmark", "options": {"html": False}, "enable": ["table", "strikethrough"], "disable": ["code"]},
    {"preset": "zero", "options": {}, "enable": ["list", "blockquote", "emphasis", "link", "table"], "disable": []},
    {"preset": "js-default", "options": {"maxNesting": 2}, "enable": [], "disable": ["fence", "hr"]},
    {"preset": "commonmark", "options": {"inline_definitions": True, "store_labels": True}, "enable": [], "disable": []},
]


def cfg_key(cfg) -> str:
    return repr((cfg["preset"], sorted(cfg["options"].items(), key=lambda kv: kv[0]), cfg["enable"], cfg["disable"]))


def scale_docs(quick: bool = True) -> list[tuple[str, str]]:
    """documents at scale: limits and counters that only large inputs reach (the table rule counts auto-completed cells — upstream's
    limit is 65 536 —, lists count items, the reference rule rescans).  Seeded changes C03i, C02m, C03m need > 65 536 missing cells in one
    table: many short rows under a wide header, or a header wider than the limit with a short *first* body row."""
    wide = "|".join(["h"] * 2048)
    huge = "|".join(["h"] * 65600)
    out = [
        ("sparse table 2048x40", "|" + wide + "|\n|" + "|".join(["-"] * 2048) + "|\n" + "".join(f"|r{i}|\n" for i in range(40)) + "\ntail\n"),
        ("sparse table in a quote", "> |" + wide + "|\n> |" + "|".join(["-"] * 2048) + "|\n" + "".join(f"> |r{i}|\n" for i in range(36)) + "\ntail\n"),
        ("ragged table 300x300", "|" + "|".join(["h"] * 300) + "|\n|" + "|".join(["-"] * 300) + "|\n" + "".join(f"|r{i}|\n" for i in range(300)) + "\ntail\n"),
        ("header wider than 65536, short first row", "|" + huge + "|\n|" + "|".join(["-"] * 65600) + "|\n|a|\n|b|c|\n\ntail\n"),
        ("dense table 260x260", "|" + "|".join(["h"] * 260) + "|\n|" + "|".join(["-"] * 260) + "|\n" + ("|" + "|".join(["c"] * 260) + "|\n") * 260),
        ("long list", "".join(f"{i}. item\n" for i in range(1, 1200)) + "\npara\n"),
        ("many definitions", "".join(f"[r{i}]: /u{i}\n" for i in range(300)) + "\n[r7]\n"),
        ("deep quotes", "".join("> " * (i % 60) + "x\n\n" for i in range(240))),
    ]
    if not quick:
        out.append(("sparse table 4096x40", out[0][1].replace("|h", "|h|h", 2048)))
        out.append(("header wider than 65536 in a list item", "- |" + huge + "|\n  |" + "|".join(["-"] * 65600) + "|\n  |a|\n\ntail\n"))
    return out
