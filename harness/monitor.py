"""Contract monitor for the real block and inline rules, and recorder for the engine tie.

`instrument(md)` wraps every rule of md.block.ruler / md.inline.ruler through the public `Ruler.at`
(alt lists preserved) and `md.block.tokenize`.  On every call it checks the contracts the Lean engine
theorems assume (lean/MdIt/Block.lean: RuleOK, Props/C01.lean: IRuleOK):

 block rule  K1 no exception · K2 a miss / a silent call changes nothing (line, tokens, level,
             blkIndent, lineMax, line tables) · K3 a non-silent match ends with
             startLine < state.line <= lineMax, beyond endLine only across empty lines · K4 tables, blkIndent, lineMax, level restored on
             return · K6 a silent (terminator) call of a rule that tests parentType sees the value its calling rule pinned · K5 the pushed segment is balanced at the entry level and its maps lie in
             [startLine, state.line)
 inline rule K1 · a miss changes nothing · a match advances pos, keeps level/posMax/src; a silent
             match adds no token and no pending text

Violations are collected in `Monitor.violations` (they are *correspondence* failures: a hypothesis of
an engine theorem does not hold for a real rule), never raised.
It also records, per `ParserBlock.tokenize` call, what the engine needs to replay the loop.
"""
from __future__ import annotations


class Monitor:
    def __init__(self):
        self.violations = []
        self.calls = 0
        self.block_calls = {}
        self.inline_calls = {}
        self.loops = []  # recorded block loops
        self._loop_stack = []
        self._rule_stack = []      # block rules running non-silently (innermost last)
        self.pins = None           # rule -> literal it assigns to parentType (gen_tables.scan_pins)
        self.readers = ()          # rules that test parentType (gen_tables.scan_parent_readers)
        self.silent_parent = {}    # (caller, parentType seen by a silent call) -> count

    def viol(self, what, **kw):
        if len(self.violations) < 50:
            self.violations.append({"what": what, **kw})


def _tables(state):
    return (tuple(state.bMarks), tuple(state.eMarks), tuple(state.tShift), tuple(state.sCount), tuple(state.bsCount))


def _balanced(tokens, level0):
    depth = level0
    for t in tokens:
        if t.nesting < 0:
            depth -= 1
        if depth < level0 or t.level != depth:
            return False
        if t.nesting > 0:
            depth += 1
    return depth == level0


def instrument(md, mon: Monitor, record_loops=True, check_tables=True):
    if mon.pins is None:
        try:
            from .gen_tables import scan_pins, scan_parent_readers
            mon.pins = dict(scan_pins()[0])
            mon.readers = tuple(scan_parent_readers())
        except Exception:
            mon.pins = None
    def wrap_block(name, fn):
        def g(state, startLine, endLine, silent):
            mon.calls += 1
            mon.block_calls[name] = mon.block_calls.get(name, 0) + 1
            line0, level0, blk0, lmax0, ntok0 = state.line, state.level, state.blkIndent, state.lineMax, len(state.tokens)
            tabs0 = _tables(state) if check_tables else None
            src = state.src
            if silent and mon._rule_stack:
                caller = mon._rule_stack[-1]
                key = (caller, state.parentType)
                mon.silent_parent[key] = mon.silent_parent.get(key, 0) + 1
                if mon.pins is not None and name in mon.readers and mon.pins.get(caller) != state.parentType:
                    mon.viol(f"K6: silent call of {name} (which tests parentType) from the terminator chain of {caller} sees parentType={state.parentType!r}, "
                             f"not the caller's own pin {mon.pins.get(caller)!r} (a value left by an earlier block)", rule=caller, input=src,
                             startLine=startLine, silent=True)
            if not silent:
                mon._rule_stack.append(name)
            try:
                res = fn(state, startLine, endLine, silent)
            except Exception as e:
                mon.viol(f"K1: block rule {name} raised {type(e).__name__}", rule=name, input=src, startLine=startLine, silent=silent)
                raise
            finally:
                if not silent:
                    mon._rule_stack.pop()
            frame_ok = (state.level == level0 and state.blkIndent == blk0 and state.lineMax == lmax0
                        and (tabs0 is None or _tables(state) == tabs0))
            if not frame_ok:
                mon.viol(f"K4: block rule {name} did not restore level/blkIndent/lineMax/line tables", rule=name, input=src,
                         startLine=startLine, silent=silent, result=bool(res))
            if (not res) or silent:
                if state.line != line0 or len(state.tokens) != ntok0:
                    mon.viol(f"K2: block rule {name} changed line/tokens on a {'silent call' if silent else 'miss'}", rule=name,
                             input=src, startLine=startLine, silent=silent, result=bool(res))
            else:
                # a match ends inside the line tables, and beyond endLine only across empty lines (a container whose last
                # lines are empty returns at the document's next non-empty line: "> > \n> \n\nfoo")
                ok3 = startLine < state.line <= state.lineMax
                if ok3 and state.line > endLine:
                    ok3 = all(state.isEmpty(i) for i in range(endLine, state.line))
                if not ok3:
                    mon.viol(f"K3: block rule {name} matched with state.line={state.line} (start {startLine}, end {endLine}, lineMax {state.lineMax})",
                             rule=name, input=src, startLine=startLine)
                seg = state.tokens[ntok0:]
                if not _balanced(seg, level0):
                    mon.viol(f"K5: block rule {name} pushed an unbalanced / mis-levelled segment", rule=name, input=src,
                             startLine=startLine, types=[t.type for t in seg][:12])
                for t in seg:
                    if t.map is not None and t.level == level0 and not (startLine <= t.map[0] and t.map[1] <= max(state.line, t.map[1] if name == "reference" else state.line)):
                        mon.viol(f"K5: block rule {name} pushed a token whose map {t.map} is outside [{startLine}, {state.line})",
                                 rule=name, input=src, startLine=startLine)
                        break
            if record_loops and mon._loop_stack and not silent:
                top = mon._loop_stack[-1]
                if top["depth_level"] == level0 and res:
                    top["script"].append((startLine, state.line))
            return res
        return g

    def wrap_inline(name, fn):
        def g(state, silent):
            mon.calls += 1
            mon.inline_calls[name] = mon.inline_calls.get(name, 0) + 1
            pos0, pmax0, level0, ntok0, pend0 = state.pos, state.posMax, state.level, len(state.tokens), state.pending
            src = state.src
            try:
                res = fn(state, silent)
            except ModuleNotFoundError:
                raise
            except Exception as e:
                mon.viol(f"K1: inline rule {name} raised {type(e).__name__}", rule=name, input=src, pos=pos0, silent=silent)
                raise
            if state.src is not src or state.posMax != pmax0 or state.level != level0:
                mon.viol(f"inline rule {name} changed src/posMax/level", rule=name, input=src, pos=pos0, silent=silent)
            if not res:
                if state.pos != pos0 or len(state.tokens) != ntok0 or state.pending != pend0:
                    mon.viol(f"inline rule {name} changed pos/tokens/pending on a miss", rule=name, input=src, pos=pos0, silent=silent)
            else:
                if not (pos0 < state.pos <= len(src)):
                    mon.viol(f"inline rule {name} matched without advancing pos ({pos0} -> {state.pos})", rule=name, input=src,
                             pos=pos0, silent=silent)
                if silent and (len(state.tokens) != ntok0 or state.pending != pend0):
                    mon.viol(f"inline rule {name} produced output on a silent call", rule=name, input=src, pos=pos0)
            return res
        return g

    for r in list(md.block.ruler.__rules__):
        en = r.enabled
        md.block.ruler.at(r.name, wrap_block(r.name, r.fn), {"alt": list(r.alt)})
        if not en:
            md.block.ruler.disable(r.name)
    for r in list(md.inline.ruler.__rules__):
        en = r.enabled
        md.inline.ruler.at(r.name, wrap_inline(r.name, r.fn), {"alt": list(r.alt)})
        if not en:
            md.inline.ruler.disable(r.name)
    if record_loops:
        orig_tok = md.block.tokenize

        def tok(state, startLine, endLine):
            rec = {
                "start": startLine, "end": endLine, "maxNesting": md.options.maxNesting, "blkIndent": state.blkIndent,
                "level": state.level, "depth_level": state.level,
                "lines": [((state.bMarks[i] + state.tShift[i]) >= state.eMarks[i], state.sCount[i]) for i in range(len(state.bMarks))],
                "script": [],
            }
            mon._loop_stack.append(rec)
            try:
                orig_tok(state, startLine, endLine)
            finally:
                mon._loop_stack.pop()
            rec["final_line"] = state.line
            rec["final_tight"] = state.tight
            if len(mon.loops) < 4000 and len(rec["lines"]) < 200:
                mon.loops.append(rec)
        md.block.tokenize = tok
    return md


def loop_request(rec) -> str:
    lines = ",".join(f"{1 if e else 0}:{sc}" for e, sc in rec["lines"]) or "~"
    script = ",".join(f"{a}>{b}" for a, b in rec["script"]) or "~"
    return f"blockloop {rec['maxNesting']} {rec['start']} {rec['end']} {rec['blkIndent']} {rec['level']} {lines} {script}"
