"""C14 — an exception escaping from user code leaves the instance intact.

Proof: lean/MdIt/Props/C14.lean (parse_intact over any event sequence and fault plan; reset_restores
for every body / exit path, closure under nesting).
Tie: fault enumeration on the implementation — a counting wrapper in every position of every chain,
a render rule for every token type, a highlight callback; for every (slot, i) reached the run is
repeated with a raise at that point; afterwards active rules, options, render-rule table and probe
renders are compared with the pre-call values.  reset_rules bodies are run on the implementation and
on the model (driver `reset`) and compared.
"""
from __future__ import annotations

from .common import Ctx, Driver, Finding, enc, enc_list
from . import gens

RULE = (
    "crash points = (callback slot, i-th invocation) for every rule of every chain, every render rule "
    "and the highlight callback, during render of generated documents; each reached point (quick: a "
    "random sample per document, thorough: all) is re-run with a raise (Exception / BaseException "
    "subclasses); reset_rules bodies = random op lists with raises and nested blocks. non-trivial = the "
    "raise happened after at least one chain was compiled and before the call finished; distinct by "
    "(doc, slot, i, exception type) / by body."
)


class Boom(Exception):
    pass


class BaseBoom(BaseException):
    pass


EXCS = [Boom, BaseBoom, ValueError]
PROBES = ["# h *e*\n\n- a\n- b\n\n> q `c`\n", "[x](y) ![i](s)\n\n```py\nf\n```\n", "a|b\n-|-\n1|2\n\n~~s~~ \"q\"\n"]


def build(preset, opts, counter, plan):
    """instance with a counting/raising wrapper around every rule, render rules and highlight"""
    from markdown_it import MarkdownIt

    def hit(slot):
        k = counter.get(slot, 0)
        counter[slot] = k + 1
        if plan is not None and plan[0] == slot and plan[1] == k:
            raise plan[2]("injected")

    def hl(content, lang, attrs):
        hit(("highlight",))
        return ""

    o = dict(opts)
    o["highlight"] = hl
    md = MarkdownIt(preset, o)
    for chain, ruler in (("core", md.core.ruler), ("block", md.block.ruler), ("inline", md.inline.ruler),
                         ("inline2", md.inline.ruler2)):
        for r in list(ruler.__rules__):
            def mk(f, slot):
                def g(*a, **k):
                    hit(slot)
                    return f(*a, **k)
                return g
            enabled = r.enabled
            ruler.at(r.name, mk(r.fn, (chain, r.name)), {"alt": list(r.alt)})
            if not enabled:
                ruler.disable(r.name)
    # a genuine plugin rule in each chain (never matches)
    md.block.ruler.before("paragraph", "plug_b", lambda s, a, b, c: hit(("block", "plug_b")) or False)
    md.inline.ruler.before("text", "plug_i", lambda s, silent: hit(("inline", "plug_i")) or False)
    md.core.ruler.push("plug_c", lambda s: hit(("core", "plug_c")))
    md.inline.ruler2.push("plug_2", lambda s: hit(("inline2", "plug_2")))
    for ttype in ["paragraph_open", "heading_open", "text", "code_inline", "em_open", "link_open", "image", "fence",
                  "softbreak", "list_item_open", "blockquote_close", "hr", "code_block", "html_block", "th_open",
                  "s_open", "hardbreak", "html_inline", "bullet_list_open", "strong_close"]:
        default = md.renderer.rules.get(ttype)

        def mkr(tt, dflt):
            def rr(self, tokens, idx, options, env):
                hit(("render", tt))
                if dflt is not None:
                    return dflt(tokens, idx, options, env)
                return self.renderToken(tokens, idx, options, env)
            return rr
        md.add_render_rule(ttype, mkr(ttype, default))
    return md


def nest_probes(md):
    mn = md.options.get("maxNesting", 100)
    out = []
    for k in sorted({max(1, mn - 3), max(1, mn - 2), max(1, mn - 1), mn, mn + 1}):
        out.append("[" * k + "a" + "]" * k + "(u)\n\n" + "> " * min(k, 60) + "b\n")
    return out


def snapshot(md):
    return (
        {k: list(v) for k, v in md.get_active_rules().items()},
        {k: list(v) for k, v in md.get_all_rules().items()},
        dict(md.options),
        {k: id(v.__func__) if hasattr(v, "__func__") else id(v) for k, v in md.renderer.rules.items()},
    )


def fault_run(ctx: Ctx, preset, opts, doc, quick):
    counter = {}
    md0 = build(preset, opts, counter, None)
    try:
        md0.render(doc)
    except ModuleNotFoundError:
        return
    reached = dict(counter)
    pts = [(slot, i) for slot, n in reached.items() for i in range(n)]
    if quick and len(pts) > 16:
        pts = ctx.rng.sample(pts, 16)
    for slot, i in pts:
        exc = ctx.rng.choice(EXCS)
        c2 = {}
        plan = [slot, i, exc]
        md = build(preset, opts, c2, plan)
        # warm up so that caches exist, with the plan disabled
        plan[0] = None
        # the failed document itself is a probe too (state keyed by the source would only show on a re-parse of the same source)
        allp = [doc] + PROBES + (nest_probes(md) if (md.options.get("maxNesting", 100) <= 30 or ctx.rng.random() < 0.08) else [])
        probes_before = [md.render(p) for p in allp]
        snap = snapshot(md)
        from .statesnap import deep_state, diff
        deep0 = deep_state(md, fn_identity=True)
        c2.clear()
        plan[0] = slot
        raised = None
        try:
            md.render(doc)
        except BaseException as e:  # noqa: BLE001
            raised = e
        plan[0] = None
        ctx.count((doc, slot, i, exc.__name__), nontrivial=True)
        what = None
        if raised is None or type(raised) is not exc:
            what = f"injected {exc.__name__} did not propagate (got {type(raised).__name__})"
        else:
            snap2 = snapshot(md)
            if snap2[0] != snap[0]:
                what = "active rules changed by a failed call"
            elif snap2[1] != snap[1]:
                what = "rule lists changed by a failed call"
            elif snap2[2] != snap[2]:
                what = "options changed by a failed call"
            elif snap2[3] != snap[3]:
                what = "render rules changed by a failed call"
            else:
                dd = diff(deep0, deep_state(md, fn_identity=True))
                ctx.corr_compared += 1
                # first of all the probes (the failed document first): state keyed by the last source would be overwritten by any
                # other render
                try:
                    after = [md.render(p) for p in allp]
                except BaseException as e:  # noqa: BLE001
                    after = ["EXC " + type(e).__name__]
                if after != probes_before:
                    what = "subsequent renders differ after a failed call"
                if dd:
                    # look for an input on which the leftover state shows: nesting probes against an untouched twin
                    twin = build(preset, opts, {}, None)
                    for p_ in nest_probes(md):
                        try:
                            if md.render(p_) != twin.render(p_):
                                what = what or "subsequent renders differ after a failed call (nesting probe vs an untouched identically built instance)"
                                break
                        except BaseException:  # noqa: BLE001
                            pass
                    ctx.mismatch("a failed call left state behind on the instance (the model's instance is unchanged by a failed call)",
                                 {"preset": preset, "input": doc, "slot": list(slot), "i": i, "exc": exc.__name__, "differences": dd})
        if what:
            ctx.fail("instance-changed", what,
                     {"preset": preset, "options": {k: repr(v) for k, v in opts.items()}, "input": doc,
                      "slot": list(slot), "i": i, "exc": exc.__name__})
        elif len(ctx.samples) < 4:
            ctx.sample({"input": doc[:60], "slot": list(slot), "i": i, "exc": exc.__name__, "intact": True})


# ---- reset_rules ----------------------------------------------------------------------------


def gen_body(rng, md, depth=0):
    allr = md.get_all_rules()
    pool = sorted({n for v in allr.values() for n in v})
    n = rng.randint(0, 4)
    toks = []
    for _ in range(n):
        k = rng.random()
        if k < 0.3:
            ns = [rng.choice(pool + ["nope"]) if rng.random() < 0.15 else rng.choice(pool) for _ in range(rng.choice([1, 2]))]
            toks.append(("en", ns, rng.random() < 0.3))
        elif k < 0.6:
            ns = [rng.choice(pool + ["nope"]) if rng.random() < 0.15 else rng.choice(pool) for _ in range(rng.choice([1, 2]))]
            toks.append(("dis", ns, rng.random() < 0.3))
        elif k < 0.7:
            toks.append(("raise", rng.randint(1, 9)))
        elif k < 0.78:
            w = rng.choice(["core", "block", "inline", "inline2"])
            toks.append(("push", w, "plug%d" % rng.randint(0, 99)))
        elif k < 0.85:
            w = rng.choice(["block", "inline"])
            key = {"block": "block", "inline": "inline"}[w]
            ns = rng.sample(allr[key], min(len(allr[key]), rng.randint(1, 3)))
            toks.append(("eo", w, ns))
        elif depth < 2:
            toks.append(("[", gen_body(rng, md, depth + 1)))
    return toks


def enc_body(toks) -> list[str]:
    out = []
    for t in toks:
        if t[0] in ("en", "dis"):
            out.append(f"{t[0]}:{enc_list(t[1])}:{1 if t[2] else 0}")
        elif t[0] == "raise":
            out.append(f"raise:{t[1]}")
        elif t[0] == "push":
            out.append(f"push:{t[1]}:{enc(t[2])}")
        elif t[0] == "eo":
            out.append(f"eo:{t[1]}:{enc_list(t[2])}")
        else:
            out += ["["] + enc_body(t[1]) + ["]"]
    return out


class UserErr(Exception):
    def __init__(self, n):
        self.n = n


class UserBaseErr(BaseException):
    """user code may raise any BaseException (KeyboardInterrupt, SystemExit, CancelledError, …)"""

    def __init__(self, n):
        self.n = n


def exec_body(md, toks):
    for t in toks:
        if t[0] == "en":
            md.enable(list(t[1]), t[2])
        elif t[0] == "dis":
            md.disable(list(t[1]), t[2])
        elif t[0] == "raise":
            if t[1] % 3 == 0:
                raise UserBaseErr(t[1])
            if t[1] % 3 == 1:
                k = KeyboardInterrupt()
                k.n = t[1]
                raise k
            raise UserErr(t[1])
        elif t[0] == "push":
            ruler = {"core": md.core.ruler, "block": md.block.ruler, "inline": md.inline.ruler,
                     "inline2": md.inline.ruler2}[t[1]]
            ruler.push(t[2], lambda *a, **k: False)
        elif t[0] == "eo":
            ruler = {"block": md.block.ruler, "inline": md.inline.ruler}[t[1]]
            ruler.enableOnly(list(t[2]))
        else:
            with md.reset_rules():
                exec_body(md, t[1])


def has_dup_push(toks, seen=None):
    seen = seen if seen is not None else set()
    for t in toks:
        if t[0] == "push":
            if (t[1], t[2]) in seen:
                return True
            seen.add((t[1], t[2]))
        elif t[0] == "[":
            if has_dup_push(t[1], seen):
                return True
    return False


def run_reset(ctx: Ctx, drv: Driver, n: int):
    from markdown_it import MarkdownIt
    from .c11 import enc_active

    lines, impl, metas = [], [], []
    for i in range(n):
        preset = ["commonmark", "js-default", "zero"][i % 3]
        md = MarkdownIt(preset)
        body = gen_body(ctx.rng, md)
        if has_dup_push(body):
            continue  # duplicate rule names are outside the property's quantifier (see Props/C14.lean)
        entry = md.get_active_rules()
        try:
            with md.reset_rules():
                exec_body(md, body)
            out = "u"
        except (UserErr, UserBaseErr, KeyboardInterrupt) as e:
            out = f"e:UserRaised{getattr(e, 'n', -1)}"
        except Exception as e:
            out = "e:" + type(e).__name__
        after = md.get_active_rules()
        ctx.count(("reset", preset, repr(body)), nontrivial=out != "u")
        if after != entry:
            ctx.fail("reset-not-restored", "active rules after a reset_rules block differ from those on entry",
                     {"preset": preset, "body": repr(body), "entry": entry, "after": after, "outcome": out})
        lines.append("reset " + enc(preset) + " " + " ".join(enc_body(body)))
        impl.append(out + " " + enc_active(after))
        metas.append((preset, body))
    model = drv.batch(lines)
    for line, a, b, meta in zip(lines, impl, model, metas):
        ctx.corr_compared += 1
        if a != b:
            ctx.mismatch("reset_rules: implementation and model differ",
                         {"request": line, "impl": a, "model": b, "body": repr(meta[1]), "preset": meta[0]})
    if lines:
        ctx.sample({"reset_request": lines[min(3, len(lines) - 1)][:200], "result": impl[min(3, len(lines) - 1)][:80]})


RULE_PROBES = ["*e* **s** _u_\n", "~~d~~\n", "[l](u) ![i](s)\n", "`c` &amp; \\* <http://a.b> <b>x</b>\n", "a  \nb\\\nc\n", "|a|b|\n|-|-|\n|1|2|\n",
               "    code\n\n```\nf\n```\n", "> q\n\n***\n\n- i\n1. o\n", "[r]: /u\n\n[r]\n", "# h\n\nt\n===\n", "<div>\nx\n</div>\n",
               "\"q\" -- (c) ...\n", "a*b*c **d**e* f_g_\n", "![a *b*](s \"t\")\n"]


def run_reset_applied(ctx: Ctx, n: int):
    """reset_rules blocks on instances with warm caches and, often, a chain that is empty on entry; the body also parses.
    Afterwards not only the reported rules but what is *applied* (probe renders, compiled chains) must be as on entry."""
    from markdown_it import MarkdownIt
    from .statesnap import deep_state, diff

    rng = ctx.rng
    for i in range(n):
        preset = ["zero", "commonmark", "js-default", "zero"][i % 4]
        md = MarkdownIt(preset)
        allr = md.get_all_rules()
        k = rng.random()
        pre_disabled = []
        extra_input = None
        if k < 0.5:
            chain = rng.choice(["inline2", "inline", "block", "core"])
            keep = {"block": {"paragraph"}, "inline": {"text"}, "core": {"normalize", "block", "inline", "text_join"}, "inline2": set()}[chain]
            pre_disabled = [r for r in allr[chain] if r not in keep]
            md.disable(pre_disabled, True)
        # a rule name that lives in two chains (emphasis / strikethrough: inline + inline2; linkify: core + inline) switched in
        # one of them only, through the ruler-level API: "as on entry" is per chain, not per name
        skew = []
        if rng.random() < 0.35:
            for chain_name, ruler, name, op in rng.sample([("inline2", md.inline.ruler2, "emphasis", "disable"), ("inline", md.inline.ruler, "emphasis", "disable"),
                                                          ("inline2", md.inline.ruler2, "strikethrough", "enable"), ("inline", md.inline.ruler, "strikethrough", "enable"),
                                                          ("inline2", md.inline.ruler2, "strikethrough", "disable"), ("inline", md.inline.ruler, "linkify", "enable")],
                                                         rng.randint(1, 2)):
                getattr(ruler, op)(name, True)
                skew.append((chain_name, name, op))
        for p_ in PROBES:
            md.render(p_)                      # warm caches
        before = [md.render(p_) for p_ in PROBES]
        entry = md.get_active_rules()
        deep0 = deep_state(md)
        body = gen_body(rng, md)
        def nopush(toks):
            # a rule added inside the block stays (disabled) after it by design: not part of "the instance as on entry"
            return [(t[0], nopush(t[1])) if t[0] == "[" else t for t in toks if t[0] != "push"]
        body = nopush(body)
        # interleave parses
        body2 = []
        for t in body:
            body2.append(t)
            if rng.random() < 0.6:
                body2.append(("parse", rng.choice(PROBES)))

        def ex(toks):
            for t in toks:
                if t[0] == "parse":
                    act = md.get_active_rules()
                    if "paragraph" not in act["block"] or "text" not in act["inline"] or not {"normalize", "block", "inline"} <= set(act["core"]):
                        continue        # a configuration without the fallback rules is outside the property (the loops would spin)
                    try:
                        md.render(t[1])
                    except (ModuleNotFoundError, IndexError, KeyError):
                        pass
                elif t[0] == "[":
                    with md.reset_rules():
                        ex(t[1])
                else:
                    exec_body(md, [t])
        try:
            with md.reset_rules():
                ex(body2)
            out = "u"
        except (UserErr, UserBaseErr, KeyboardInterrupt) as e:
            out = f"e:UserRaised{getattr(e, 'n', -1)}"
        except Exception as e:  # noqa: BLE001
            out = "e:" + type(e).__name__
        ctx.count(("reset-applied", preset, repr(body2)[:200]), nontrivial=True)
        what = None
        if md.get_active_rules() != entry:
            what = "active rules after a reset_rules block differ from those on entry"
        else:
            try:
                after = [md.render(p_) for p_ in PROBES]
            except Exception as e:  # noqa: BLE001
                after = ["EXC " + type(e).__name__]
            if after != before:
                what = "renders after a reset_rules block differ from those before it although the reported rules are as on entry"
            else:
                dd = diff(deep0, deep_state(md))
                ctx.corr_compared += 1
                if dd:
                    # look for an input on which the leftover shows: one probe per rule, against a twin that never ran the block
                    twin = MarkdownIt(preset)
                    if pre_disabled:
                        twin.disable(pre_disabled, True)
                    for chain_name, name, op in skew:
                        getattr({"inline": twin.inline.ruler, "inline2": twin.inline.ruler2}[chain_name], op)(name, True)
                    for p_ in RULE_PROBES:
                        try:
                            if md.render(p_) != twin.render(p_):
                                what = "renders after a reset_rules block differ from an identically configured instance that never ran the block"
                                extra_input = p_
                                break
                        except Exception:  # noqa: BLE001
                            pass
                    ctx.mismatch("a reset_rules block left state behind (compiled chains / attributes differ from entry)",
                                 {"preset": preset, "body": repr(body2)[:400], "differences": dd})
        if what:
            ctx.fail("reset-not-restored", what, {"preset": preset, "body": repr(body2)[:600], "outcome": out, "input": extra_input,
                                                  "before_the_block": [list(x) for x in skew]})


def run(ctx: Ctx) -> None:
    quick = ctx.quick()
    rng = ctx.rng
    run_reset_applied(ctx, 400 if quick else 3000)
    ndocs = 120 if quick else 500
    docs = list(gens.doc_stream(rng, ndocs, 6))
    docs[:3] = PROBES
    cfgs = [("commonmark", {}), ("js-default", {"typographer": True}), ("zero", {}), ("js-default", {"html": True, "breaks": True})]
    for i, doc in enumerate(docs):
        preset, opts = cfgs[i % len(cfgs)]
        fault_run(ctx, preset, opts, doc, quick)
    drv = Driver()
    try:
        run_reset(ctx, drv, 1500 if quick else 40000)
    finally:
        drv.close()
    ctx.partial += [
        "parse_intact is a theorem about the event abstraction (chain requests + callback invocations); that the "
        "implementation writes nothing else on the instance is what the fault enumeration and C13's write audit check",
        "reset_restores assumes rule names stay distinct (a rule inserted under an existing name before it captures "
        "the snapshot entry — same in the code; outside the property's quantifier)",
    ]


def search(ctx: Ctx):
    c = Ctx(ctx.pid, "quick", ctx.seed + 1)
    for doc in PROBES:
        for preset, opts in (("commonmark", {}), ("js-default", {"typographer": True})):
            fault_run(c, preset, opts, doc, False)
            if c.findings:
                return c.findings[0]
    return None


def replay(ctx: Ctx, obj: dict) -> bool:
    if "slot" in obj:
        c = Ctx(ctx.pid, "thorough", 0)
        fault_run(c, obj["preset"], {}, obj["input"], False)
        return not c.findings
    return True
