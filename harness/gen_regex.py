"""T1 (translator) — the regular expressions of /repo's working tree as Lean data.

Every run re-reads the *live compiled pattern objects* of the library (whatever their pattern strings are now), parses them with
the interpreter's own `re._parser`, and writes them as terms of `MdIt.Rx` to lean/MdIt/Generated/Regex.lean.  Character sets
are evaluated with `re` itself under the pattern's flags over all code points (so IGNORECASE, `\\s`, negation mean what the
interpreter says they mean) and written as closed ranges.  Unsupported syntax (back-references, conditional groups, inline flag
groups that change case rules, possessive/atomic groups) raises: the build then fails loudly instead of mistranslating.
"""
from __future__ import annotations

import re
import sys

from . import common

try:  # Python >= 3.11
    import re._parser as sre_parse
    import re._constants as sre_c
except ImportError:  # pragma: no cover
    import sre_parse
    import sre_constants as sre_c

_ALL = None
_SETCACHE: dict = {}


def _allchars() -> str:
    global _ALL
    if _ALL is None:
        _ALL = "".join(map(chr, range(0x110000)))
    return _ALL


def _cls_escape(cp: int) -> str:
    return "\\U%08x" % cp


def _ranges_of_class(cls: str, flags: int) -> list[tuple[int, int]]:
    """closed code-point ranges accepted by the one-character class `cls` under `flags`"""
    key = (cls, flags & (re.I | re.A | re.S))
    if key in _SETCACHE:
        return _SETCACHE[key]
    pat = re.compile("(?:" + cls + ")+", flags & (re.I | re.A | re.S))
    out = [(m.start(), m.end() - 1) for m in pat.finditer(_allchars())]
    _SETCACHE[key] = out
    return out


_CAT = {
    sre_c.CATEGORY_SPACE: "\\s", sre_c.CATEGORY_NOT_SPACE: "\\S",
    sre_c.CATEGORY_DIGIT: "\\d", sre_c.CATEGORY_NOT_DIGIT: "\\D",
    sre_c.CATEGORY_WORD: "\\w", sre_c.CATEGORY_NOT_WORD: "\\W",
}


def _class_string(items) -> str:
    out = ["["]
    for op, av in items:
        if op is sre_c.NEGATE:
            out.append("^")
        elif op is sre_c.LITERAL:
            out.append(_cls_escape(av))
        elif op is sre_c.RANGE:
            out.append(_cls_escape(av[0]) + "-" + _cls_escape(av[1]))
        elif op is sre_c.CATEGORY:
            out.append(_CAT[av])
        else:
            raise ValueError(f"unsupported set item {op}")
    out.append("]")
    return "".join(out)


def _set(ranges) -> str:
    return "(.set [" + ", ".join(f"({a}, {b})" for a, b in ranges) + "])"


def _seq(parts: list[str]) -> str:
    if not parts:
        return ".eps"
    acc = parts[-1]
    for p in reversed(parts[:-1]):
        acc = f"(.seq {p} {acc})"
    return acc


def _alt(parts: list[str]) -> str:
    acc = parts[-1]
    for p in reversed(parts[:-1]):
        acc = f"(.alt {p} {acc})"
    return acc


def _tr(seq, flags: int) -> str:
    parts = []
    for op, av in seq:
        if op is sre_c.LITERAL:
            parts.append(_set(_ranges_of_class("[" + _cls_escape(av) + "]", flags)))
        elif op is sre_c.NOT_LITERAL:
            parts.append(_set(_ranges_of_class("[^" + _cls_escape(av) + "]", flags)))
        elif op is sre_c.IN:
            parts.append(_set(_ranges_of_class(_class_string(av), flags)))
        elif op is sre_c.ANY:
            parts.append(_set(_ranges_of_class("[\\s\\S]" if flags & re.S else "[^\\n]", flags)))
        elif op is sre_c.BRANCH:
            parts.append(_alt([_tr(b, flags) for b in av[1]]))
        elif op is sre_c.SUBPATTERN:
            _g, add, dele, sub = av
            if add or dele:
                raise ValueError("inline flag groups are not supported")
            parts.append(_tr(sub, flags))
        elif op in (sre_c.MAX_REPEAT, sre_c.MIN_REPEAT):
            lo, hi, sub = av
            mx = "none" if hi == sre_c.MAXREPEAT else f"(some {hi})"
            parts.append(f"(.rep {'true' if op is sre_c.MAX_REPEAT else 'false'} {lo} {mx} {_tr(sub, flags)})")
        elif op is sre_c.AT:
            if av is sre_c.AT_BEGINNING:
                if flags & re.M:
                    raise ValueError("MULTILINE ^ is not supported")
                parts.append(".bol")
            elif av is sre_c.AT_END:
                if flags & re.M:
                    raise ValueError("MULTILINE $ is not supported")
                parts.append(".eol")
            else:
                raise ValueError(f"unsupported anchor {av}")
        elif op in (sre_c.ASSERT, sre_c.ASSERT_NOT):
            direction, sub = av
            if direction != 1:
                raise ValueError("look-behind is not supported")
            parts.append(f"(.look {'true' if op is sre_c.ASSERT_NOT else 'false'} {_tr(sub, flags)})")
        else:
            raise ValueError(f"unsupported regex construct {op}")
    return _seq(parts)


def rx_of(pat: "re.Pattern[str]") -> str:
    flags = pat.flags
    if flags & (re.X | re.L):
        raise ValueError("VERBOSE/LOCALE patterns are not supported")
    tree = sre_parse.parse(pat.pattern, flags)
    return _tr(list(tree), flags)


def patterns() -> dict[str, "re.Pattern[str]"]:
    """name -> live pattern object (after common.use_repo())"""
    import importlib

    ent = importlib.import_module("markdown_it.rules_inline.entity")
    auto = importlib.import_module("markdown_it.rules_inline.autolink")
    hre = importlib.import_module("markdown_it.common.html_re")
    hb = importlib.import_module("markdown_it.rules_block.html_block")
    cu = importlib.import_module("markdown_it.common.utils")
    tbl = importlib.import_module("markdown_it.rules_block.table")
    out = {
        "tableHeaderRe": tbl.headerLineRe,
        "digitalRe": ent.DIGITAL_RE, "namedRe": ent.NAMED_RE,
        "emailRe": auto.EMAIL_RE, "autolinkRe": auto.AUTOLINK_RE,
        "htmlTagRe": hre.HTML_TAG_RE, "htmlOpenCloseTagRe": hre.HTML_OPEN_CLOSE_TAG_RE,
        "linkOpenRe": cu.LINK_OPEN_RE, "linkCloseRe": cu.LINK_CLOSE_RE,
    }
    for i, (start, end, _term) in enumerate(hb.HTML_SEQUENCES):
        out[f"htmlSeqStart{i}"] = start
        out[f"htmlSeqEnd{i}"] = end
    return out


def html_seq_terminates() -> list[bool]:
    import importlib

    hb = importlib.import_module("markdown_it.rules_block.html_block")
    return [bool(t) for (_s, _e, t) in hb.HTML_SEQUENCES]


def generate() -> list[str]:
    common.use_repo()
    pats = patterns()
    L = ["import MdIt.Rx",
         "/-! GENERATED by harness/gen_regex.py from the live pattern objects of /repo's working tree — do not edit. -/",
         "namespace MdIt.Gen", "open MdIt", ""]
    for name, p in pats.items():
        doc = p.pattern.replace("-/", "- /")
        if len(doc) > 300:
            doc = doc[:300] + " …"
        L.append(f"/-- `{doc}` flags={p.flags & (re.I | re.S | re.M | re.A)} -/")
        L.append(f"def {name} : Rx := {rx_of(p)}")
    n = len([k for k in pats if k.startswith("htmlSeqStart")])
    L.append("")
    L.append("/-- `HTML_SEQUENCES`: (start, end, may terminate a paragraph) -/")
    term = html_seq_terminates()
    L.append("def htmlSequences : List (Rx × Rx × Bool) := ["
             + ", ".join(f"(htmlSeqStart{i}, htmlSeqEnd{i}, {'true' if term[i] else 'false'})" for i in range(n)) + "]")
    L.append("end MdIt.Gen")
    text = "\n".join(L) + "\n"
    target = common.LEAN / "MdIt" / "Generated" / "Regex.lean"
    old = target.read_text() if target.exists() else None
    if old != text:
        target.write_text(text)
        return ["Regex.lean"]
    return []


if __name__ == "__main__":
    print(generate())
