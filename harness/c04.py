"""C04 — with raw HTML off, output is well-formed and contains only renderer-made markup.

Proof: lean/MdIt/Props/C04.lean — escapeHtml_eq/units/no_meta, render_pieces, no_raw, vocab,
vocab_fixed, and the T1 obligations table_tags/table_keys over the regenerated vocabulary scan.
Tie: the renderer model vs the real RendererHTML on token streams of generated documents under
generated configurations (HTML strings equal); escapeHtml vs the real function exhaustively per
character + on random strings; dynamic twin of the vocabulary scan (tags/attr keys observed in token
streams are in the fixed vocabulary).
Oracle: a lexer for the output language (tags from the fixed vocabulary, attributes ` k="v"`,
entities &amp; &lt; &gt; &quot; only, proper nesting) run on md.render output of every html-off
configuration, with a metacharacter-injection stream.
"""
from __future__ import annotations

import copy
import re

from .common import Ctx, Driver, Finding, enc, dec
from . import gens
from .tokcodec import enc_tok, supported

RULE = (
    "documents (G-doc, spec/fixture mutations, malformed, metacharacter injection into info strings/alt/"
    "titles/URLs/labels/code/table rows) x html-off configurations (presets, rule subsets, typographer, breaks, "
    "xhtmlOut, langPrefix and quotes with metacharacters, inline_definitions, store_labels); a case is "
    "(document, configuration); non-trivial = the output contains at least one tag and the input at least one of "
    "& < > \"; distinct by (document, configuration)."
)

TAGS = {"p", "h1", "h2", "h3", "h4", "h5", "h6", "blockquote", "ul", "ol", "li", "pre", "code", "em", "strong", "s",
        "a", "img", "br", "hr", "table", "thead", "tbody", "tr", "th", "td"}
VOID = {"img", "br", "hr"}
ATTRS = {"href", "title", "src", "alt", "start", "style", "class"}
TAG_RE = re.compile(r'<(/?)([a-z0-9]+)((?: [a-z]+="[^"<>]*")*)( /)?>')
ENT_RE = re.compile(r"&(amp|lt|gt|quot);")
EXTRA = ['"', "<", ">", "&", "<script>", '" onx="', "`", '```"<>&', "&#60;", "&lt;", '[a]: <x"y> "t<"', '![a"<](u"v)',
         '[l](u "t\\"<")', "1. ", '~~~ a"b<c>', "&amp;lt;", "<!--", "]]>", "'", "\\<", "&#x3c;", " ", "<a href=\"x\">"]


def lex(out: str):
    i = 0
    stack = []
    n = len(out)
    while i < n:
        c = out[i]
        if c == "<":
            m = TAG_RE.match(out, i)
            if not m:
                return f"malformed tag at {i}: {out[i:i+40]!r}"
            close, tag, attrs, slash = m.groups()
            if tag not in TAGS:
                return "element outside the vocabulary: " + tag
            for am in re.finditer(r' ([a-z]+)="([^"]*)"', attrs):
                if am.group(1) not in ATTRS:
                    return "attribute outside the vocabulary: " + am.group(1)
                if re.search(r"&(?!(amp|lt|gt|quot);)", am.group(2)):
                    return "raw & in attribute value"
            if close:
                if attrs or slash:
                    return "closing tag with attributes"
                if not stack or stack[-1] != tag:
                    return f"bad nesting: </{tag}> closes {stack[-1:]}"
                stack.pop()
            elif tag in VOID:
                pass
            else:
                if slash:
                    return "self-closing non-void element " + tag
                stack.append(tag)
            i = m.end()
            continue
        if c in '>"':
            return f"raw {c!r} in text at {i}"
        if c == "&":
            m = ENT_RE.match(out, i)
            if not m:
                return f"raw & in text at {i}: {out[i:i+12]!r}"
            i = m.end()
            continue
        i += 1
    if stack:
        return f"unclosed elements {stack}"
    return None


def enc_for_render(tokens):
    from markdown_it.common.utils import unescapeAll

    recs = []

    def walk(ts):
        for t in ts:
            if t.type == "fence":
                info = unescapeAll(t.info).strip() if t.info else ""
                t2 = copy.copy(t)
                t2.meta = dict(t.meta)
                if info:
                    t2.meta["@lang"] = info.split(maxsplit=1)[0]
                recs.append(enc_tok(t2)[0])
            else:
                recs.append(enc_tok(t)[0])
                if t.children:
                    walk(t.children)
    walk(tokens)
    return recs


def run(ctx: Ctx) -> None:
    from markdown_it.common.utils import escapeHtml

    quick = ctx.quick()
    rng = ctx.rng
    from . import gen_tables
    if gen_tables.VOCAB_UNKNOWN:
        ctx.cov["t1_scan_unavailable"] = gen_tables.VOCAB_UNKNOWN[:10]
    n = 1500 if quick else 40000
    drv = Driver()
    try:
        lines, exp, metas = [], [], []
        seen_tags, seen_keys = set(), set()
        fixed = [c for c in gens.FIXED_CFGS if not (c["options"].get("html") or (c["preset"] == "commonmark" and "html" not in c["options"]))]
        for i, src in enumerate(gens.doc_stream(rng, n, 7)):
            if rng.random() < 0.5:
                k = rng.randint(0, len(src))
                src = src[:k] + rng.choice(EXTRA) + src[k:]
            if i % 3 == 0 and fixed:
                cfg = fixed[i % len(fixed)]
            else:
                cfg = gens.rand_cfg(rng, html=False)
            try:
                md = gens.make_md(cfg)
            except Exception:
                continue
            act = md.get_active_rules()
            if "paragraph" not in act["block"] or "text" not in act["inline"] or not {"normalize", "block", "inline", "text_join"} <= set(act["core"]):
                continue
            if md.options.get("linkify") and "linkify" in act["core"]:
                continue
            env = {}
            try:
                toks = md.parse(src, env)
                html = md.renderer.render(copy.deepcopy(toks), md.options, env)
            except Exception:
                continue
            err = lex(html)
            ctx.count((src, gens.cfg_key(cfg)), nontrivial=("<" in html and any(c in src for c in '&<>"')))
            if err:
                ctx.fail("malformed-output", f"html-off output is not well-formed renderer-only markup: {err}",
                         {"input": src, "cfg": cfg, "output": html[:400], "error": err})
            for t in toks:
                for u in [t] + (t.children or []):
                    seen_tags.add(u.tag)
                    seen_keys.update(u.attrs.keys())
            if all(supported(t) for t in toks) and len(toks) < 300:
                recs = enc_for_render(toks)
                lines.append(f"render {1 if md.options['xhtmlOut'] else 0} {1 if md.options['breaks'] else 0} "
                             f"{enc(md.options['langPrefix'])} " + " ".join(recs))
                exp.append("ok " + enc(html))
                metas.append((src, cfg))
            if len(ctx.samples) < 3 and "<" in html and '"' in src:
                ctx.sample({"input": src[:80], "output": html[:120]})
        # bounded-exhaustive delimiter strings (pairs that cross would render as crossing tags)
        from markdown_it import MarkdownIt
        mdd = MarkdownIt("js-default")
        nsweep = 0
        for src in gens.delim_sweep(6 if quick else 7, ("~~", "~", "*", "[", "](u)", "a") if quick else ("~~", "~", "*", "_", "[", "](u)", "a", " ")):
            html = mdd.render(src)
            nsweep += 1
            err = lex(html)
            if err:
                ctx.fail("malformed-output", f"html-off output is not well-formed renderer-only markup: {err}",
                         {"input": src, "cfg": gens.FIXED_CFGS[1], "output": html[:400], "error": err})
                break
        for src in gens.crossing_family():
            html = mdd.render(src)
            nsweep += 1
            err = lex(html)
            if err:
                ctx.fail("malformed-output", f"html-off output is not well-formed renderer-only markup: {err}",
                         {"input": src, "cfg": gens.FIXED_CFGS[1], "output": html[:400], "error": err})
                break
        # verbatim containers whose content looks like the renderer's own output (a renderer that special-cases "already wrapped" content)
        bodies = ["<pre><script>alert(1)</script></pre>", "<pre>x</pre>", "<pre><code>y</code></pre>", "<pre", "</pre>", "<code>z</code>", "<p>p</p>",
                  "<br />", "<img src=x onerror=y>", "<pre>\n<b onmouseover=z>\n</pre>", "&lt;pre&gt;", "<pre class=\"q\">r</pre>", "<PRE>s</PRE>",
                  "<a href=\"javascript:t\">u</a>", "<hr />", "<blockquote>\nv\n</blockquote>", "<li>w</li>", "<h1>x</h1>", "<em>y</em>", "<s>z</s>"]
        frames = ["```\n%s\n```\n", "~~~ info\n%s\n~~~\n", "```%s\nbody\n```\n", "    %s\n", "`%s`\n", "![%s](u)\n", "[a](u '%s')\n", "![a](u \"%s\")\n",
                  "> ```\n> %s\n> ```\n", "- ```\n  %s\n  ```\n", "%s\n", "# %s\n", "a|b\n-|-\n%s|c\n", "[r]: /u '%s'\n\n[r]\n", "<%s>\n", "&%s;\n"]
        mdoff = [MarkdownIt("js-default"), MarkdownIt("commonmark", {"html": False}), MarkdownIt("js-default", {"xhtmlOut": True, "breaks": True, "langPrefix": "l-"})]
        nverb = 0
        for b in bodies:
            for fr in frames:
                src = fr % (b if "\n" not in fr.split("%s")[0][-3:] or True else b)
                if "%s" in fr and "\n" in b and not fr.startswith(("```\n", "~~~", "> ```", "- ```")):
                    src = fr % b.replace("\n", " ")
                elif fr.startswith("> ```"):
                    src = fr % b.replace("\n", "\n> ")
                elif fr.startswith("- ```"):
                    src = fr % b.replace("\n", "\n  ")
                for m_ in mdoff:
                    nverb += 1
                    try:
                        html = m_.render(src)
                    except Exception:
                        continue
                    err = lex(html)
                    ctx.count((src, "verbatim-markup"), nontrivial=True)
                    if err:
                        ctx.fail("malformed-output", f"html-off output is not well-formed renderer-only markup: {err}",
                                 {"input": src, "cfg": gens.FIXED_CFGS[1], "output": html[:400], "error": err})
                        break
        ctx.cov["markup_shaped_verbatim_cases"] = nverb
        ctx.evaluations += nsweep
        ctx.cov["delimiter_sweep_strings"] = nsweep
        # html switched off on a *used* instance, by every route: the configuration at render time has html off, whatever was
        # parsed before and however the option got its value
        RAW = ["<script>alert(1)</script>\n", "a <img src=x onerror=y> b\n", "<div onclick=\"e()\">\n\nx\n", "> <!-- c\n> d -->\n", "- <b>x</b>\n", "<?php x ?>\n"]

        def routes():
            def r_item(md):
                md.options["html"] = False
            def r_attr(md):
                md.options.html = False
            def r_set(md):
                md.set({**md.options, "html": False})
            def r_cfg(md):
                md.configure("js-default")
            return {"options[...]": r_item, "options.attr": r_attr, "set": r_set, "configure": r_cfg}
        for rname, route in routes().items():
            for warm in (True, False):
                mdr = MarkdownIt("commonmark")
                if warm:
                    for src in RAW:
                        mdr.render(src)
                try:
                    route(mdr)
                except Exception:
                    continue
                if mdr.options.get("html"):
                    continue
                for src in RAW:
                    html = mdr.render(src)
                    err = lex(html)
                    ctx.count((src, rname, warm), nontrivial=True)
                    if err:
                        ctx.fail("malformed-output", f"html switched off through {rname} on a {'used' if warm else 'fresh'} instance: output is not renderer-only markup: {err}",
                                 {"input": src, "cfg": {"preset": "commonmark", "route": rname, "warm": warm}, "route": rname, "warm": warm, "output": html[:400], "error": err})
        got = drv.batch(lines)
        for ln, e, g, (src, cfg) in zip(lines, exp, got, metas):
            ctx.corr_compared += 1
            if e != g:
                ctx.mismatch("renderer: implementation and model differ",
                             {"input": src, "cfg": cfg, "impl": dec(e[3:])[:400],
                              "model": dec(g[3:])[:400] if g.startswith("ok ") else g})
        # dynamic twin of the T1 vocabulary scan
        badt = sorted(t for t in seen_tags if t and t not in TAGS)
        badk = sorted(k for k in seen_keys if k not in ATTRS)
        ctx.cov["observed_tags"] = sorted(seen_tags)
        ctx.cov["observed_attr_keys"] = sorted(seen_keys)
        if badt or badk:
            ctx.fail("vocabulary", f"token stream uses tags/attribute keys outside the fixed vocabulary: {badt} {badk}", {})
        # escapeHtml: per character over the whole code space (cheap) + strings through the model
        bad = None
        for cp in range(0x110000):
            if 0xD800 <= cp <= 0xDFFF:
                continue
            c = chr(cp)
            want = {"&": "&amp;", "<": "&lt;", ">": "&gt;", '"': "&quot;"}.get(c, c)
            if escapeHtml(c) != want:
                bad = (cp, escapeHtml(c))
                break
        ctx.cov["escapeHtml_chars_exhaustive"] = True
        if bad:
            ctx.fail("escapeHtml", f"escapeHtml(chr({bad[0]:#x})) = {bad[1]!r}", {"input": chr(bad[0])})
        strs = [gens.rand_malformed(rng, 12) + rng.choice(EXTRA) for _ in range(300 if quick else 5000)]
        from .tokcodec import enc_toks
        from markdown_it.token import Token
        tl = []
        for s_ in strs:
            t = Token("text", "", 0)
            t.content = s_
            tl.append("render 0 0 - " + enc_tok(t)[0])
        got = drv.batch(tl)
        for s_, g in zip(strs, got):
            ctx.corr_compared += 1
            if g != "ok " + enc(escapeHtml(s_)):
                ctx.mismatch("escapeHtml: implementation and model differ", {"input": s_, "impl": escapeHtml(s_), "model": g})
        from . import rxtie
        rxtie.tie_leaf(ctx, drv, quick)      # translated regular expressions + inline leaf rules (autolink, html_inline, entity)
        from . import pipeline
        pipeline.tie_full(ctx, drv, 2000 if quick else 60000)     # MarkdownIt.parse end to end on the modelled sub-language
        pipeline.tie_full(ctx, drv, 2500 if quick else 60000, ref=True, render=True)     # MarkdownIt.render end to end: the HTML itself
    finally:
        drv.close()
    ctx.partial += [
        "parser_vocab (html off => the parser emits no html_block/html_inline token and only tags of the fixed vocabulary) "
        "is a theorem only for the modelled inline sub-parser (C04.xmini_no_html: no html_inline token with the option off); for html_block "
        "and the unmodelled rules it is carried by the T1 vocabulary table (theorems table_tags/table_keys) "
        "and its dynamic twin (tags/keys observed in token streams)",
        "proper nesting of the output tags is C02's balance property pushed through the renderer; it is decided here by the "
        "output lexer (oracle), the lexer round-trip theorem over pieces is not proved",
    ]
    ctx.assumptions += ["no highlight callback, default RendererHTML (as the property states)"]


def search(ctx: Ctx):
    rng = ctx.rng
    for src in gens.doc_stream(rng, 4000, 6):
        k = rng.randint(0, len(src))
        src = src[:k] + rng.choice(EXTRA) + src[k:]
        for cfg in gens.FIXED_CFGS:
            if cfg["options"].get("html") or (cfg["preset"] == "commonmark" and "html" not in cfg["options"]):
                continue
            try:
                html = gens.make_md(cfg).render(src)
            except Exception:
                continue
            err = lex(html)
            if err:
                return Finding("malformed-output", err, {"input": src, "cfg": cfg, "output": html[:300]})
    return None


def replay(ctx: Ctx, obj: dict) -> bool:
    if "route" in obj:
        from markdown_it import MarkdownIt
        md = MarkdownIt("commonmark")
        if obj.get("warm"):
            md.render("<b>x</b>\n\n<div>\n")
        r = obj["route"]
        if r == "options[...]":
            md.options["html"] = False
        elif r == "options.attr":
            md.options.html = False
        elif r == "set":
            md.set({**md.options, "html": False})
        else:
            md.configure("js-default")
        return lex(md.render(obj["input"])) is None
    if "input" in obj and "cfg" in obj:
        return lex(gens.make_md(obj["cfg"]).render(obj["input"])) is None
    return True
