"""C12 — a parse depends only on configuration, source and env: no hidden shared state.

Proof: lean/MdIt/Props/C12.lean over lean/MdIt/World.lean (frame, config_after_history,
probe_function, fresh_equiv, env_omitted, env_frame, construct_deterministic).
Tie: random API histories over 1-3 live instances with interleaved parses of arbitrary documents;
(i) configuration after the history compared with the model (driver `world`); (ii) probe render
compared with a fresh, identically configured instance; (iii) deep snapshots of `_PRESETS`, class
attributes and module globals of markdown_it.* before/after must be equal; (iv) static scans: no
mutable default arguments, dataclass fields with mutable defaults use default_factory.
"""
from __future__ import annotations

import ast
import copy
import random
import inspect
import types

from .common import Ctx, Driver, Finding, REPO, enc, enc_list
from . import gens

RULE = (
    "random histories (construct with any preset/options, set options by the three routes, enable/disable, "
    "add render rules, parse/render/parseInline of generated documents with env omitted / fresh / shared) on "
    "1-3 live instances, followed by probe renders on every instance compared with a fresh identically "
    "configured instance; a case is one history; non-trivial = at least one instance parsed a document that "
    "defines references or was reconfigured after parsing; distinct by history."
)

PRESETS = ["commonmark", "js-default", "zero", "default"]
PROBES = [
    "# h *e*\n\n- a\n- b\n\n> q `c` [r] [x]\n\n[r]: /u\n",
    "[x] ![i](s) \"q\" -- ...\n\n```py\nf\n```\n\na|b\n-|-\n1|2\n",
    # link labels whose scan (parseLinkLabel -> skipToken) has to step over every inline construct that can hold a ']'
    "[a `]` b](x) [c \\] d](y) [e <i t=\"]\"> f](z) [g <http://h/]> i](w) [j ![k]](l) m](n) [*o]* p](q) [~~r]~~](s)\n",
    "[" * 7 + "x" + "](u)" * 7 + " " + "![" * 5 + "y" + "](v)" * 5 + "\n",
    # every block construct indented by four columns: what it is depends on whether `code` is enabled *now*
    "    # h\n\n    > q\n\n    - i\n\n    ***\n\n    ```\n    x\n    ```\n\n    [r]: /u\n\n    <div>\n\n    t\n    ===\n\n    |a|\n    |-|\n\npara\n    lazy\n",
]
# documents rendered once at the very start of the process and again after all the histories: a result may not depend on what the
# process parsed before (memo tables at module level, cached helper results that a caller edits in place, ...)
REPEAT_DOCS = [
    "| k | v | n |\n|---|---|---|\n|| middle ||\n",
    "para\n|| a | b |\n|---|---|---|\n|| 1 | 2 |\n",
    "| a | b ||\n|---|---|---|\n| 1 || 3 |\n||||\n",
    "a|b\n-|-\n|\n||\n|||\n\\||x\n",
    "|a\\|b|c|\n|:-|-:|\n|`x|y`|z|\n",
    "- [x]: /u 't'\n\n  [x] ![x]\n\n> ```\n> f\n> ```\n",
    "*a **b** c* ~~d~~ `e` <http://f.g> <b> &amp; &#35; \\* [h](i \"j\") ![k](l)\n",
    "1. a\n\n   b\n2. c\n\n***\n\nt\n===\n\n<div>\nx\n</div>\n\n    code\n",
]


def repeat_docs(rng):
    docs = list(PROBES) + list(REPEAT_DOCS)
    for _ in range(120):
        docs.append(gens.rand_doc(rng, 6))
    for _ in range(60):      # table rows with empty cells at either end (the enclosing-pipe stripping) next to ordinary rows
        cols = rng.randint(1, 4)
        rows = ["|" + "|".join(rng.choice(["a", "", " ", "b c", "\\|", "`|`"]) for _ in range(cols)) + "|"]
        rows.append("|" + "|".join(rng.choice(["-", ":-", "-:", ":-:"]) for _ in range(cols)) + "|")
        for _ in range(rng.randint(1, 4)):
            rows.append(rng.choice(["|", "", "||"]) + "|".join(rng.choice(["x", "", " ", "y"]) for _ in range(rng.randint(1, cols + 1))) + rng.choice(["|", "", "||"]))
        docs.append("\n".join(rows) + "\n")
    return docs


def render_all(docs):
    from markdown_it import MarkdownIt

    out = []
    for preset in ("js-default", "commonmark"):
        for d in docs:
            md = MarkdownIt(preset)
            if preset == "commonmark":
                md.enable("table")
            try:
                out.append(md.render(d))
            except Exception as ex:     # noqa: BLE001
                out.append("EXC " + type(ex).__name__)
    return out


def memo_objects():
    """functools caches hanging off markdown_it modules / classes: process-level state the model does not have"""
    import sys

    found = {}
    for name, mod in sorted(sys.modules.items()):
        if not (name == "markdown_it" or name.startswith("markdown_it.")) or mod is None:
            continue
        for k, v in vars(mod).items():
            objs = [(k, v)]
            if isinstance(v, type) and getattr(v, "__module__", "") == name:
                objs += [(f"{k}.{ck}", cv) for ck, cv in vars(v).items()]
            for kk, o in objs:
                ci = getattr(o, "cache_info", None)
                if callable(ci) and getattr(o, "__module__", "").startswith("markdown_it"):
                    try:
                        found[f"{name}.{kk}"] = ci().currsize
                    except Exception:
                        pass
    return found


OPT_CHOICES = [
    ("html", [True, False]), ("typographer", [True, False]), ("breaks", [True, False]), ("xhtmlOut", [True, False]),
    ("langPrefix", ["language-", "lang-", ""]), ("quotes", ["“”‘’", "«»„“"]), ("maxNesting", [3, 20, 100]),
    ("inline_definitions", [True, False]), ("store_labels", [True, False]),
]
ATTR_ROUTE = {"html", "typographer", "breaks", "xhtmlOut", "langPrefix", "quotes", "maxNesting"}


def enc_val(v) -> str:
    if v is None:
        return "N"
    if isinstance(v, bool):
        return "b1" if v else "b0"
    if isinstance(v, int):
        return f"n{v}"
    if isinstance(v, str):
        return "s" + enc(v)
    if isinstance(v, (list, tuple)):
        return "l" + enc_list(v)
    return "N"


def enc_inst(md) -> str:
    from .c11 import enc_active

    opts = ";".join(f"{enc(k)}={enc_val(v)}" for k, v in sorted(dict(md.options).items()))
    rr = enc_list(sorted(k for k in md.renderer.rules if k.startswith("zz_")))
    return enc_active(md.get_active_rules()) + "|" + opts + "|" + rr


def module_snapshot():
    """deep snapshot of module globals / class attributes of markdown_it.* that hold data"""
    import sys

    snap = {}
    for name, mod in sorted(sys.modules.items()):
        if not (name == "markdown_it" or name.startswith("markdown_it.")) or mod is None:
            continue
        for k, v in vars(mod).items():
            if k.startswith("__"):
                continue
            if isinstance(v, (dict, list, set, tuple, str, int, float, bool, frozenset)) or v is None:
                try:
                    snap[f"{name}.{k}"] = copy.deepcopy(v)
                except Exception:
                    snap[f"{name}.{k}"] = repr(v)
            elif isinstance(v, type) and getattr(v, "__module__", "") == name:
                for ck, cv in vars(v).items():
                    if ck.startswith("__") and ck not in ("__output__",):
                        continue
                    if isinstance(cv, (dict, list, set, tuple, str, int, float, bool)):
                        snap[f"{name}.{k}.{ck}"] = copy.deepcopy(cv)
    return snap


def static_scan():
    """mutable default arguments / dataclass mutable defaults in markdown_it/**"""
    bad = []
    for f in sorted((REPO / "markdown_it").rglob("*.py")):
        try:
            tree = ast.parse(f.read_text())
        except SyntaxError:
            continue
        for node in ast.walk(tree):
            if isinstance(node, (ast.FunctionDef, ast.AsyncFunctionDef, ast.Lambda)):
                for d in list(node.args.defaults) + [d for d in node.args.kw_defaults if d is not None]:
                    if isinstance(d, (ast.Dict, ast.List, ast.Set, ast.DictComp, ast.ListComp, ast.SetComp)):
                        bad.append(f"{f.relative_to(REPO)}:{d.lineno} mutable default argument")
                    if isinstance(d, ast.Call) and isinstance(d.func, ast.Name) and d.func.id in ("dict", "list", "set"):
                        bad.append(f"{f.relative_to(REPO)}:{d.lineno} mutable default argument")
            if isinstance(node, ast.ClassDef):
                is_dc = any("dataclass" in ast.unparse(d) for d in node.decorator_list)
                for st in node.body:
                    if is_dc and isinstance(st, ast.AnnAssign) and st.value is not None:
                        if isinstance(st.value, (ast.Dict, ast.List, ast.Set)):
                            bad.append(f"{f.relative_to(REPO)}:{st.lineno} dataclass field with shared mutable default")
    return bad


def one_history(ctx: Ctx, rng, maxops: int):
    from markdown_it import MarkdownIt

    insts = []       # (md, ctor_args, cfg_ops) ; cfg_ops replayed on the fresh twin
    toks = []        # model request
    impl = []        # impl outputs for the model-comparable ops
    shared_envs = [{}]
    nontrivial = False
    parsed = set()

    def new():
        preset = rng.choice(PRESETS)
        upd = {}
        for k, vs in rng.sample(OPT_CHOICES, rng.randint(0, 3)):
            upd[k] = rng.choice(vs)
        md = MarkdownIt(preset, dict(upd) or None)
        insts.append((md, (preset, dict(upd)), []))
        toks.append("new:" + enc(preset) + ":" + (";".join(f"{enc(k)}={enc_val(v)}" for k, v in upd.items()) or "~"))
        impl.append("u")

    new()
    n = rng.randint(2, maxops)
    for _ in range(n):
        k = rng.random()
        i = rng.randrange(len(insts))
        md, ctor, cfg = insts[i]
        if k < 0.1 and len(insts) < 3:
            new()
        elif k < 0.3:
            key, vs = rng.choice(OPT_CHOICES)
            v = rng.choice(vs)
            route = rng.choice(["item", "attr"]) if key in ATTR_ROUTE else "item"
            if route == "item":
                md.options[key] = v
            else:
                setattr(md.options, key, v)
            cfg.append(("set", route, key, v))
            toks.append(f"set:{i}:{route}:{enc(key)}:{enc_val(v)}")
            impl.append("u")
            if i in parsed:
                nontrivial = True
        elif k < 0.5:
            allr = md.get_all_rules()
            pool = sorted({x for v in allr.values() for x in v})
            ns = [rng.choice(pool + ["nope"]) if rng.random() < 0.1 else rng.choice(pool) for _ in range(rng.choice([1, 2]))]
            ig = rng.random() < 0.3
            en = rng.random() < 0.5
            try:
                (md.enable if en else md.disable)(ns, ig)
                o = "u"
            except ValueError:
                o = "e:ValueError"
            cfg.append(("en" if en else "dis", ns, ig))
            toks.append(f"{'en' if en else 'dis'}:{i}:{enc_list(ns)}:{1 if ig else 0}")
            impl.append(o)
            if i in parsed:
                nontrivial = True
        elif k < 0.57:
            name = "zz_" + rng.choice(["a", "b", "c"])
            fn = rng.randint(1, 9)

            def rr(self, tokens, idx, options, env, _fn=fn):
                return f"<rr{_fn}>"
            md.add_render_rule(name, rr)
            cfg.append(("rr", name, fn, rr))
            toks.append(f"rr:{i}:{enc(name)}:{fn}")
            impl.append("u")
        else:
            act = md.get_active_rules()
            if "paragraph" not in act["block"] or "text" not in act["inline"] or not {"normalize", "block", "inline"} <= set(act["core"]):
                continue
            doc = gens.rand_doc(rng, 5)
            if rng.random() < 0.4:
                doc += "\n[r]: /other\n[x]: /xx 'T'\n"
                nontrivial = True
            mode = rng.random()
            try:
                if mode < 0.4:
                    md.render(doc)
                elif mode < 0.6:
                    md.parse(doc, {})
                elif mode < 0.8:
                    md.render(doc, rng.choice(shared_envs))
                else:
                    md.parseInline(doc)
            except ModuleNotFoundError:
                pass
            parsed.add(i)
            toks.append(f"parse:{i}")
            impl.append("u")
    for i in range(len(insts)):
        toks.append(f"q:{i}")
        impl.append(enc_inst(insts[i][0]))
    return insts, toks, impl, nontrivial


def probe_vs_fresh(ctx: Ctx, insts, toks):
    from markdown_it import MarkdownIt

    for i, (md, (preset, upd), cfg) in enumerate(insts):
        act = md.get_active_rules()
        if "paragraph" not in act["block"] or "text" not in act["inline"] or not {"normalize", "block", "inline"} <= set(act["core"]):
            continue
        if md.options.get("linkify"):
            continue
        fresh = MarkdownIt(preset, dict(upd) or None)
        for op in cfg:
            try:
                if op[0] == "set":
                    if op[1] == "item":
                        fresh.options[op[2]] = op[3]
                    else:
                        setattr(fresh.options, op[2], op[3])
                elif op[0] == "en":
                    fresh.enable(op[1], op[2])
                elif op[0] == "dis":
                    fresh.disable(op[1], op[2])
                else:
                    fresh.add_render_rule(op[1], op[3])
            except ValueError:
                pass
        for p in PROBES:
            for envmode in ("omitted", "empty"):
                a_env, b_env = ({}, {}) if envmode == "empty" else (None, None)
                a = md.render(p, a_env) if a_env is not None else md.render(p)
                b = fresh.render(p, b_env) if b_env is not None else fresh.render(p)
                if a != b:
                    ctx.fail("history-dependent", "probe render on a used instance differs from a fresh identically configured instance",
                             {"request": "world " + " ".join(toks), "instance": i, "input": p, "env": envmode,
                              "used": a[:300], "fresh": b[:300]})
                    return
            ta = [t.as_dict() for t in md.parse(p)]
            tb = [t.as_dict() for t in fresh.parse(p)]
            if ta != tb:
                ctx.fail("history-dependent", "probe parse on a used instance differs from a fresh identically configured instance",
                         {"request": "world " + " ".join(toks), "instance": i, "input": p})
                return
        # nesting probes around the configured limit (a counter that survives a call shows here first)
        mn = md.options.get("maxNesting", 100)
        for k in sorted({max(1, mn - 2), max(1, mn - 1), mn, mn + 1, max(1, mn // 2)}):
            p = "[" * k + "a" + "]" * k + "(u)\n\n" + "> " * min(k, 60) + "b\n"
            try:
                a, b = md.render(p), fresh.render(p)
            except Exception:
                continue
            if a != b:
                ctx.fail("history-dependent", "nesting probe on a used instance differs from a fresh identically configured instance",
                         {"request": "world " + " ".join(toks), "instance": i, "input": p, "used": a[:200], "fresh": b[:200]})
                return
        # tie: everything the two instances hold is equal (the model's instance has no other state)
        from .statesnap import deep_state, diff
        d = diff(deep_state(md), deep_state(fresh))
        ctx.corr_compared += 1
        if d:
            ctx.mismatch("a used instance holds state that a fresh identically configured instance does not (hidden state outside "
                         "the model's configuration)", {"request": "world " + " ".join(toks), "instance": i, "differences": d})
            return


def run(ctx: Ctx) -> None:
    from markdown_it import MarkdownIt
    from markdown_it.main import _PRESETS

    quick = ctx.quick()
    rng = ctx.rng
    nh = 250 if quick else 6000
    rdocs = repeat_docs(random.Random(ctx.seed * 7919 + 12))
    memo_before = memo_objects()
    first = render_all(rdocs)                 # before anything else has been parsed in this process
    before = module_snapshot()
    presets_before = copy.deepcopy(_PRESETS)
    drv = Driver()
    try:
        lines, impls = [], []
        for _ in range(nh):
            insts, toks, impl, nontrivial = one_history(ctx, rng, 14 if quick else 40)
            line = "world " + " ".join(toks)
            ctx.count(line, nontrivial=nontrivial)
            lines.append(line)
            impls.append(" ".join(impl))
            probe_vs_fresh(ctx, insts, toks)
        model = drv.batch(lines)
        for line, a, b in zip(lines, impls, model):
            ctx.corr_compared += 1
            if a != b:
                aa, bb = a.split(" "), b.split(" ")
                i = next((i for i, (x, y) in enumerate(zip(aa, bb)) if x != y), min(len(aa), len(bb)))
                ctx.mismatch("API history: configuration of implementation and model differ",
                             {"request": line[:2000], "index": i, "impl": aa[i][:400] if i < len(aa) else None,
                              "model": bb[i][:400] if i < len(bb) else None})
        ctx.sample({"history": lines[0][:300]})
    finally:
        drv.close()
    # (ii-b) the same documents on fresh instances again, now that the process has a history
    for rnd in (1, 2):
        later = render_all(rdocs)
        ctx.count(("repeat", rnd), nontrivial=True)
        for i, (a, b) in enumerate(zip(first, later)):
            if a != b:
                ctx.fail("process-history-dependent", "a fresh instance renders a document differently once the process has parsed other "
                         "documents (first render in the process vs a later one)",
                         {"input": rdocs[i % len(rdocs)], "preset": ("js-default", "commonmark+table")[i // len(rdocs)], "first": a[:300],
                          "later": b[:300], "round": rnd})
                break
    memo_after = memo_objects()
    grown = sorted(k for k in memo_after if memo_after[k] != memo_before.get(k, 0))
    # informational only: a memo of a pure function (the library has one: rules_inline/text.py `_terminator_char_regex`) is not hidden
    # state in the sense of the property; what decides is the first-vs-later render comparison above
    ctx.cov["process_level_memos"] = memo_after
    ctx.cov["process_level_memos_grown"] = grown
    # (iii) module-level state untouched
    after = module_snapshot()
    changed = sorted(k for k in set(before) | set(after) if before.get(k) != after.get(k))
    if changed:
        ctx.fail("module-state-changed", f"module-level state changed by API use: {changed[:5]}", {"changed": changed})
    if presets_before != _PRESETS:
        ctx.fail("presets-changed", "the shared preset table was mutated by API use", {})
    # env: definitions do not travel between calls without the env
    md = MarkdownIt()
    md.render("[r]: /leak\n")
    if "leak" in md.render("[r]\n"):
        ctx.fail("env-leak", "a reference definition travelled between calls with env omitted", {"input": "[r]: /leak | [r]"})
    e = {}
    md.render("[r]: /kept\n", e)
    if "kept" not in md.render("[r]\n", e):
        ctx.fail("env-lost", "definitions in a caller-supplied env are not visible to the next call with the same env", {})
    # preset dict passed by the caller is not mutated / aliased
    cfg = copy.deepcopy(_PRESETS["commonmark"])
    cfg0 = copy.deepcopy(cfg)
    m1 = MarkdownIt(cfg)
    m1.options["html"] = False
    m1.disable("emphasis")
    if cfg != cfg0:
        ctx.fail("config-aliased", "configuring an instance mutated the preset dictionary it was built from", {})
    if MarkdownIt("commonmark").options["html"] is not True:
        ctx.fail("presets-changed", "a later instance sees another instance's option change", {})
    ctx.count("env+alias probes", nontrivial=True)
    bad = static_scan()
    ctx.cov["static_scan_findings"] = bad
    if bad:
        ctx.fail("mutable-default", f"shared mutable default: {bad[:3]}", {"sites": bad})
    ctx.partial += [
        "the parser is a parameter P of the model: the theorems state which inputs a result can depend on; that the "
        "implementation has no state the model lacks is what the tie (fresh-twin comparison, module snapshots) checks",
    ]


def search(ctx: Ctx):
    c = Ctx(ctx.pid, "quick", ctx.seed + 7)
    for _ in range(300):
        insts, toks, impl, _ = one_history(c, c.rng, 10)
        probe_vs_fresh(c, insts, toks)
        if c.findings:
            return c.findings[0]
    return None


def replay(ctx: Ctx, obj: dict) -> bool:
    return True
