"""C06 — CommonMark container laws: quoting or list-indenting a document nests its blocks.

Proof: lean/MdIt/Props/C06.lean — quote_strip (lemma A: on a tab-free line "> " ++ body the block-quote
rule leaves exactly the indent/consumed prefix that `body` has as a line of its own, at any nesting
and inherited offset) and nested_loop_frame (lemma D), on top of C17.marker_tab/quoteOffsets_prefix.
Tie: the live block-quote rule's per-line records (C17's refinement trace) on quoted documents.
Oracle: the two laws on the implementation — quote(D) parses to one block quote holding blocks(D)
with levels +1 and maps unchanged, same references; listify(marker, W, D) parses to a one-item list
holding blocks(D) with levels +2 (modulo hidden and leading blanks of lazy lines, excluding the
thematic-break precedence case) — applied repeatedly up to depth 6.
"""
from __future__ import annotations

from .common import Ctx, Driver, Finding, enc
from . import gens

RULE = (
    "newline-terminated documents without tab/CR/NUL from G-doc and the structured nested-container generator, wrapped by '> ' (all lines) and by list markers "
    "'- ', '* ', '+ ', 'N. ', 'N) ' with 1-4 following spaces, repeatedly (random container chains up to depth 6), "
    "commonmark rules; a case is (D, container chain); non-trivial = D has at least two blocks or a nested container; "
    "distinct by case."
)

MARKERS = ["-", "*", "+", "1.", "7)", "12."]


def quote(D: str) -> str:
    return "".join("> " + ln + "\n" if ln else ">\n" for ln in D.split("\n")[:-1])


def listify(D: str, marker: str, sp: int, blank: bool = False) -> str:
    """`blank`: indent blank lines too (the literal reading, and the form C06.list_law is stated for)"""
    W = len(marker) + sp
    lines = D.split("\n")[:-1]
    out = [marker + " " * sp + lines[0]]
    for ln in lines[1:]:
        out.append(" " * W + ln if (ln or blank) else "")
    return "\n".join(out) + "\n"


def proj(ts, dl=0, drop_hidden=False):
    out = []
    for t in ts:
        content = t.content
        if t.type == "inline":
            content = "\n".join(x.lstrip(" ") for x in content.split("\n"))
        out.append((t.type, t.tag, t.nesting, t.level + dl, tuple(t.map) if t.map else None, content, t.markup, t.info,
                    None if drop_hidden else t.hidden))
    return out


def check_quote(md, D):
    env0, env1 = {}, {}
    a = md.parse(D, env0)
    b = md.parse(quote(D), env1)
    n = len(D.split("\n")) - 1
    if not a:
        return None
    if len(b) < 2 or b[0].type != "blockquote_open" or b[-1].type != "blockquote_close" or b[0].map != [0, n]:
        return ("not-one-quote", [t.type for t in b][:6], b[0].map if b else None)
    if proj(b[1:-1]) != proj(a, 1):
        return ("inner-differs",)
    r0 = {k: (v["href"], v["title"]) for k, v in env0.get("references", {}).items()}
    r1 = {k: (v["href"], v["title"]) for k, v in env1.get("references", {}).items()}
    if r0 != r1:
        return ("references-differ",)
    return True


def check_list(md, D, marker, sp, blank=False):
    if not D or D[0] in " \n":
        return None
    a = md.parse(D)
    if not a:
        return None
    L = listify(D, marker, sp, blank)
    first = L.split("\n")[0]
    # thematic-break precedence on the combined first line
    import re
    if re.match(r"^ {0,3}([-*_])( *\1){2,} *$", first):
        return None
    b = md.parse(L)
    if len(b) < 4 or not b[0].type.endswith("list_open") or b[1].type != "list_item_open" or b[-2].type != "list_item_close":
        return ("not-one-item", [t.type for t in b][:6])
    if sum(1 for t in b if t.type == "list_item_open" and t.level == 1) != 1:
        return ("several-items",)
    if proj(b[2:-2], 0, True) != proj(a, 2, True):
        if any(t.type == "html_block" and "\n\n" in t.content.rstrip("\n") + "\n" for t in a) or \
                any(t.type == "html_block" and t.map and any(x == "" for x in D.split("\n")[t.map[0]:t.map[1]]) for t in a):
            return ("html-block-blank-line",)
        return ("inner-differs",)
    return True


def run(ctx: Ctx) -> None:
    from markdown_it import MarkdownIt

    quick = ctx.quick()
    rng = ctx.rng
    md = MarkdownIt("commonmark")
    n = 2500 if quick else 60000
    corpus = ["<pre>\na\n\nb\n</pre>\nokay\n"]     # known finding K-C06-1 (always exercised)
    # quotes interrupted by a lazy line and resumed: the second quote re-reads line tables the first one restored
    for q1 in ("> a", "> a\n> b", "> - a", "> ```\n> c\n> ```", ">     code", "> a\n>\n> b", "> # h", "> 1. x\n>    y"):
        for lz in ("lazy", "  lazy", "lazy\nmore"):
            for q2 in ("> c", "> c\n> d", ">> e", ">\n> f", "> - g\n>   h", ">     code2"):
                for tail in ("", "\ntail", "- end"):
                    corpus.append(q1 + "\n" + lz + "\n" + q2 + "\n" + (tail + "\n" if tail else ""))
    for i in range(-len(corpus), n):
        D = corpus[i] if i < 0 else (gens.struct_doc(rng, 2) if i % 4 == 1 else gens.rand_doc(rng, 5) if i % 4 else next(gens.doc_stream(rng, 1, 5)))
        D = D.replace("\t", " ").replace("\r", "").replace("\x00", "")
        for ch in gens.TRAPS:
            if len(ch) == 1 and ch.isspace():
                D = D.replace(ch, "")
        if not D.endswith("\n"):
            D += "\n"
        chain = []
        cur = D
        depth = rng.randint(1, 3 if quick else 6)
        for _ in range(depth):
            try:
                if (i >= 0 or i > -len(corpus)) and rng.random() < 0.5:
                    r = check_quote(md, cur)
                    step = ("quote",)
                    nxt = quote(cur)
                else:
                    mk, sp = rng.choice(MARKERS), rng.randint(1, 4)
                    bl = rng.random() < 0.5
                    r = check_list(md, cur, mk, sp, bl)
                    step = ("list", mk, sp, bl)
                    nxt = listify(cur, mk, sp, bl) if cur and cur[0] not in " \n" else None
            except Exception:
                break
            chain.append(step)
            ctx.count((D, tuple(chain)), nontrivial=(r is True and (cur.count("\n") > 1 or len(chain) > 1)))
            if r not in (None, True):
                ctx.fail("container-law:" + step[0] + (":html-block-blank-line" if r[0] == "html-block-blank-line" else ""),
                         f"{step} of the document does not nest its blocks: {r}",
                         {"input": cur, "step": list(step), "chain": [list(s) for s in chain], "detail": [repr(x) for x in r]})
                break
            if nxt is None or r is None:
                break
            cur = nxt
        if len(ctx.samples) < 3 and len(chain) > 1:
            ctx.sample({"D": D[:50], "chain": [list(s) for s in chain]})
    # tie: block-quote records on quoted documents (C17's trace)
    from .c17 import QuoteTrace
    md2 = MarkdownIt()
    qt = QuoteTrace(md2)
    for i in range(300 if quick else 5000):
        D = gens.rand_doc(rng, 4).replace("\t", " ").replace("\r", "")
        if not D.endswith("\n"):
            D += "\n"
        try:
            md2.parse(quote(quote(D)) if i % 2 else quote(D))
        except Exception:
            pass
    drv = Driver()
    try:
        recs = [r for r in qt.records if r[1] >= 0][:5000]
        got = drv.batch([f"quote 1 {bs} {sc} {enc(after)}" for bs, sc, after, _ in recs])
        for (bs, sc, after, impl), g in zip(recs, got):
            ctx.corr_compared += 1
            if ",".join(map(str, impl)) != g:
                ctx.mismatch("block quote marker arithmetic: live rule and model differ", {"bsCount": bs, "sCount": sc, "after_marker": after, "impl": impl, "model": g})
                break
        # tie of the modelled block sub-parsers (leaf rules, block quotes, lists)
        from . import miniblock
        miniblock.tie_all(ctx, drv, quick)
    finally:
        drv.close()
    ctx.partial += [
        "PROVED, list-indent half (C06h.list_law, by a third simulation — column shift — Props/C06e-g): for the modelled sub-parser, every "
        "tab-free document D without '>' whose first line starts with a non-blank, every marker ('*', '-', '+', 1-9 digits + ')' or '.'), "
        "1-4 spaces, every subset of the optional rules, every maxNesting >= 0: unless the combined first line is a thematic break, the "
        "marker + spaces before the first line and that many spaces before every other line parse (two more levels allowed) to one "
        "list with one item over all lines whose content is the stream of D with level+2, same maps/contents/markup, up to the hidden "
        "flag of paragraphs. '>' is excluded because of the exception the property names (a lazy continuation line inside a quote keeps "
        "the item's indentation); a decided example shows the exception is real in the model.",
        "PROVED for the modelled sub-parser (code, fence, blockquote, hr, list, heading, paragraph; C06c.quote_law for the chains "
        "without lists, C06d.l_quote_law with lists — quotes and lists nested in each other, tight/loose, ordered, empty items): for every "
        "tab-free document D given by its lines, every subset of the optional rules and every maxNesting >= 0, quoting "
        "every line parses (with one more level allowed) to exactly one block quote over all lines whose content is the "
        "stream of D with level+1 and the same maps. Method: simulation (C06b) — bsCount is never read on tab-free "
        "tables, level and maxNesting shift together — instantiated with the lines the quote rule presents to its "
        "nested run (quoteStrip of '> ' ++ l equals the line record of l up to bsCount).",
        "NOT PROVED: the list law for documents containing '>' (block quotes inside the indented document) or with blank lines left "
        "unindented, the laws for rules outside the sub-parser (lheading, reference, html_block, table), "
        "documents with tabs, and the same-maxNesting form of the law (it differs at "
        "the nesting limit): decided by the oracle on the implementation",
    ]

def search(ctx: Ctx):
    from markdown_it import MarkdownIt

    c = Ctx(ctx.pid, "quick", ctx.seed + 37)
    md = MarkdownIt()
    for _ in range(6000):
        D = gens.rand_doc(c.rng, 4).replace("\t", " ").replace("\r", "").replace("\x00", "")
        if not D.endswith("\n"):
            D += "\n"
        try:
            r = check_quote(md, D)
        except Exception:
            continue
        if r not in (None, True):
            return Finding("container-law:quote", f"quoting does not nest the blocks: {r}", {"input": D, "step": ["quote"]})
    return None


def replay(ctx: Ctx, obj: dict) -> bool:
    from markdown_it import MarkdownIt

    md = MarkdownIt()
    if obj.get("step", [None])[0] == "quote":
        return check_quote(md, obj["input"]) in (None, True)
    if obj.get("step", [None])[0] == "list":
        return check_list(md, obj["input"], obj["step"][1], obj["step"][2], obj["step"][3] if len(obj["step"]) > 3 else False) in (None, True)
    return True
