"""Ties for the translated regular expressions (lean/MdIt/Generated/Regex.lean, engine MdIt/Rx.lean) and for the inline
sub-parser with the leaf rules `autolink`, `html_inline`, `entity` (MdIt/InlineLeaf.lean).

`rx_subtie`: each live pattern object against `Rx.ends` on strings generated from the pattern's own parse tree (random walks that
match, then prefixes / single edits / insertions from the pattern's alphabet and a list of trap characters) — `match` end and
`search` verdict must agree.

`inline_x_tie`: `parseInline` of the real parser under `zero` + a subset of the modelled inline rules against the model, all token
fields compared; the functions outside /repo (`html.entities`, `mdurl` parse/format, `normalizeLinkText`) are observed on the
implementation's side and shipped with the request.
"""
from __future__ import annotations

import re

from .common import Ctx, Driver, enc
from .tokcodec import enc_toks
from . import gen_regex

TRAPS = ["\u00a0", "\u017f", "\u212a", "\u0130", "\u0131", "é", "\n", "\t", " ", "\x0b", "\x1f", "\x85", "\u2028", "😀", "\x00", "\x7f"]


def _alphabet(tree) -> list[str]:
    out = set()
    sc = gen_regex.sre_c

    def walk(seq):
        for op, av in seq:
            if op in (sc.LITERAL, sc.NOT_LITERAL):
                out.add(chr(av))
            elif op is sc.IN:
                for o2, a2 in av:
                    if o2 is sc.LITERAL:
                        out.add(chr(a2))
                    elif o2 is sc.RANGE:
                        out.update({chr(a2[0]), chr(a2[1]), chr((a2[0] + a2[1]) // 2)})
            elif op is sc.BRANCH:
                for b in av[1]:
                    walk(b)
            elif op is sc.SUBPATTERN:
                walk(av[3])
            elif op in (sc.MAX_REPEAT, sc.MIN_REPEAT):
                walk(av[2])
            elif op in (sc.ASSERT, sc.ASSERT_NOT):
                walk(av[1])

    walk(tree)
    return sorted(out)


def _gen(seq, rng, flags) -> str:
    sc = gen_regex.sre_c
    out = []
    for op, av in seq:
        if op is sc.LITERAL:
            c = chr(av)
            out.append(c.swapcase() if (flags & re.I) and rng.random() < 0.3 else c)
        elif op is sc.NOT_LITERAL:
            out.append(rng.choice("ab <>-"))
        elif op is sc.IN:
            rs = gen_regex._ranges_of_class(gen_regex._class_string(av), flags)
            if not rs:
                continue
            a, b = rng.choice(rs[:6] if rng.random() < 0.8 else rs)
            cp = rng.choice([a, b, (a + b) // 2])
            if 0xD800 <= cp <= 0xDFFF:
                cp = a if a < 0xD800 else 0xE000
            out.append(chr(cp))
        elif op is sc.ANY:
            out.append(rng.choice("ab c"))
        elif op is sc.BRANCH:
            out.append(_gen(rng.choice(av[1]), rng, flags))
        elif op is sc.SUBPATTERN:
            out.append(_gen(av[3], rng, flags))
        elif op in (sc.MAX_REPEAT, sc.MIN_REPEAT):
            lo, hi, sub = av
            k = rng.randint(lo, min(hi, lo + 3))
            if rng.random() < 0.05 and hi != sc.MAXREPEAT and hi < 100:
                k = rng.choice([hi, hi + 1])
            out.append("".join(_gen(sub, rng, flags) for _ in range(k)))
        elif op in (sc.ASSERT,):
            if rng.random() < 0.7:
                out.append(_gen(av[1], rng, flags))
    return "".join(out)


def _mutate(s: str, rng, alpha: list[str]) -> str:
    r = rng.random()
    pool = alpha + TRAPS
    if not s:
        return rng.choice(pool)
    i = rng.randrange(len(s) + 1)
    if r < 0.25:
        return s[:i]
    if r < 0.5:
        return s[:i] + rng.choice(pool) + s[i:]
    if r < 0.75:
        return s[:i] + rng.choice(pool) + s[i + 1:]
    if r < 0.9:
        return s[:i] + s[i + 1:]
    return s + "".join(rng.choice(pool) for _ in range(rng.randint(1, 4)))


def rx_subtie(ctx: Ctx, drv: Driver, per_pattern: int) -> None:
    try:
        pats = gen_regex.patterns()
    except Exception as e:  # noqa: BLE001  (a pattern object the translator reads is gone: the tie is broken, not the tool)
        ctx.mismatch("the library's regular expressions could not be read for translation (T1): " + f"{type(e).__name__}: {e}", {"input": ""})
        return
    rng = ctx.rng
    lines, exp, meta = [], [], []
    hits = {}
    for name, p in pats.items():
        tree = list(gen_regex.sre_parse.parse(p.pattern, p.flags))
        alpha = _alphabet(tree)
        strs = set()
        for _ in range(per_pattern):
            s = _gen(tree, rng, p.flags)
            strs.add(s)
            for _k in range(3):
                s2 = _mutate(s, rng, alpha)
                strs.add(s2)
                if rng.random() < 0.3:
                    strs.add(_mutate(s2, rng, alpha))
            if rng.random() < 0.3:
                strs.add("".join(rng.choice(alpha + TRAPS) for _ in range(rng.randint(0, 8))))
        strs = [s for s in strs if len(s) <= 120 and not any(0xD800 <= ord(c) <= 0xDFFF for c in s)]
        hits[name] = [0, 0]
        for s in strs:
            m = p.match(s)
            lines.append(f"rx {name} m {enc(s)}")
            exp.append(str(m.end()) if m else "N")
            meta.append((name, "match", s))
            hits[name][0] += 1
            hits[name][1] += 1 if m else 0
            lines.append(f"rx {name} s {enc(s)}")
            exp.append("1" if p.search(s) else "0")
            meta.append((name, "search", s))
    got = drv.batch(lines)
    for e, g, m in zip(exp, got, meta):
        ctx.corr_compared += 1
        if e != g.strip():
            ctx.mismatch(f"regular expression {m[0]} ({m[1]}): the interpreter's `re` and the translated pattern on Rx.ends differ",
                         {"pattern": m[0], "mode": m[1], "input": m[2], "impl": e, "model": g})
    ctx.cov["rx_subtie"] = {k: {"strings": v[0], "matching": v[1]} for k, v in hits.items()}


# ------------------------------------------------------------------------------------------------------------------------

RULE_NAMES = {"n": "newline", "e": "escape", "b": "backticks", "m": "emphasis", "s": "strikethrough", "a": "autolink",
              "h": "html_inline", "y": "entity"}
CHAIN_ORDER = "tnebsmahy"

ATOMS = ["a", "b", " ", "\n", "\\", "*", "**", "_", "&", "&amp;", "&#35;", "&#x22;", "&#X3c;", "&AMP;", "&ouml;", "&nosuch;", "&#0;",
         "&#xD800;", "&#1234567;", "&#12345678;", "&#x110000;", "&copy", "&\u212aopf;", "&#", "&#x;", "&;", "&a;", "&ab;",
         "<", ">", "<http://a.b>", "<http://a b>", "<a@b.c>", "<a@b-.c>", "<https://é.x/ü?q=%20%zz>", "<mailto:x@y.z>", "<x:>", "<x:y",
         "<javascript:alert(1)>", "<data:image/png;base64,xx>", "<data:text/html,x>", "<JaVaScRiPt:a>", "<a>", "</a>", "<a href=\"x\">",
         "<a b='c' d=e f>", "<a b=c\u00a0d=e>", "<br/>", "<br />", "<!-- c -->", "<!--->", "<!---->", "<!-- a -- b -->", "<?php x ?>", "<!DOCTYPE html>",
         "<![CDATA[x]]>", "<a\nb>", "<A HREF=x>", "</A >", "<a-b c:d=\"e\">", "<1>", "<a =>", "<a b = >", "<a b=\">", "`", "``", "`<a>`", "~~",
         "<http://a\n>", "<http://a.b/\\>", "<h://[x]>", "<ab://xn--n3h.com>", "<http://☃.net>", "<foo@bar.example.com\n>", "é", "😀", "[", "]", "!"]


def inline_x_tie(ctx: Ctx, drv: Driver, n: int) -> None:
    import html.entities

    from markdown_it import MarkdownIt
    from markdown_it.common import normalize_url as nu
    import mdurl
    from markdown_it import _punycode

    rng = ctx.rng
    ents5 = {k[:-1]: v for k, v in html.entities.html5.items() if k.endswith(";")}
    from markdown_it.common.entities import entities as lib_entities

    def reformat(url: str) -> str:
        parsed = mdurl.parse(url, slashes_denote_host=True)
        if parsed.hostname and (not parsed.protocol or parsed.protocol in nu.RECODE_HOSTNAME_FOR):
            try:
                parsed = parsed._replace(hostname=_punycode.to_ascii(parsed.hostname))
            except Exception:
                pass
        return mdurl.format(parsed)

    def pairs(d: dict) -> str:
        return ",".join(f"{enc(k)}={enc(v)}" for k, v in d.items()) or "~"

    subsets = ["ty", "tey", "tnebsmahy", "ta", "tah", "th", "tnah", "tebmahy", "tnebsmahy", "ay", "h", "tneahy", "tbah", "tmay", "tsh", "tnebmy", "y"]
    lines, exp, meta = [], [], []
    name_re = re.compile(r"&([^&;\s]{1,40});")
    for it in range(n):
        rs = rng.choice(subsets)
        s = "".join(rng.choice(ATOMS) for _ in range(rng.randint(0, 9)))
        if "\r" in s or "\x00" in s:
            continue
        mn = rng.choice([20, 20, 1, 0, 3])
        html_on = rng.random() < 0.7
        fj = rng.random() < 0.8
        tj = rng.random() < 0.8
        md = MarkdownIt("zero", {"maxNesting": mn, "html": html_on})
        en = [RULE_NAMES[c] for c in rs if c in RULE_NAMES]
        if en:
            md.enable(en)
        if "t" not in rs:
            md.disable("text")
        if not fj:
            md.inline.ruler2.disable("fragments_join")
        if not tj:
            md.disable("text_join")
        seen_norm, seen_text = {}, {}
        orig_nl, orig_nt = md.normalizeLink, md.normalizeLinkText

        def nl(u, _o=orig_nl, _d=seen_norm):
            _d[u] = reformat(u)
            return _o(u)

        def nt(u, _o=orig_nt, _d=seen_text):
            r = _o(u)
            _d[u] = r
            return r

        md.normalizeLink = nl          # the rules call these through state.md
        md.normalizeLinkText = nt
        try:
            toks = md.parseInline(s)
            e = "ok " + " ".join(enc_toks(toks[0].children or []))
        except Exception as ex:
            e = "e:" + type(ex).__name__
        ents = {}
        for m in name_re.finditer(s):
            if m.group(1) in lib_entities:
                ents[m.group(1)] = lib_entities[m.group(1)]
        if any(ents5.get(k) != v for k, v in ents.items()):
            ctx.mismatch("common/entities.py is not the interpreter's html5 table", {"input": s})
        lines.append(f"inlinex {mn} {rs or '-'} {1 if fj else 0} {1 if tj else 0} {1 if html_on else 0} {pairs(ents)} "
                     f"{pairs(seen_norm)} {pairs(seen_text)} {enc(s)}")
        exp.append(e)
        meta.append((s, rs, mn, fj, tj, html_on))
    got = drv.batch(lines)
    kinds = {}
    for e, g, m in zip(exp, got, meta):
        ctx.corr_compared += 1
        for ty in ("link_open", "html_inline", "text_special", "code_inline", "em_open", "s_open"):
            if enc(ty) + "|" in e:
                kinds[ty] = kinds.get(ty, 0) + 1
        if e.strip() != g.strip():
            ctx.mismatch("inline engine with autolink/html_inline/entity: implementation and model differ",
                         {"input": m[0], "rules": m[1], "maxNesting": m[2], "fragments_join": m[3], "text_join": m[4], "html": m[5],
                          "impl": e[:500], "model": g[:500]})
    ctx.cov["inline_x_tie"] = {"documents": len(lines), "streams_with": kinds}


def tie_leaf(ctx: Ctx, drv: Driver, quick: bool) -> None:
    """the ties of the translated regular expressions, of the inline leaf rules and of the link rule"""
    rx_subtie(ctx, drv, 60 if quick else 700)
    inline_x_tie(ctx, drv, 1500 if quick else 40000)
    inline_l_tie(ctx, drv, 2000 if quick else 50000)
    inline_l_tie(ctx, drv, 2500 if quick else 60000, image=True)


LINK_ATOMS = ["a", "b", " ", "\n", "*", "**", "_", "`", "[", "]", "](", ")", "(u)", "(", "](u)", "](u) ", "<http://p.q>", "<a@b.c>", "[a](b)", "[a](<b c>)", "[a](b \"t\")", "[a](b 't' )",
              "[a]( b (t) )", "[a][r]", "[r][]", "[r]", "[R]", "[foo  bar]", "[a][Foo\tBar]", "[a](javascript:x)", "[a](\\))", "[a](b\\ c)", "[a](b(c)d)",
              "[a](<b>c)", "[*a*](u)", "[a *b](u)*", "[[a](u)](v)", "[a](&amp;)", "[a](b\n\"t\")", "![", "\\[", "\\]", "`]`", "<http://x.y>", "[<http://x.y>](u)",
              "[a](u \"t\\\"q\")", "[a](<u\\>v>)", "[a]()", "[a](<>)", "[]()", "[](u)", "[a](u 't)", "[a](u \"t\" x)", "[a] (u)", "[a]\n[r]", "[a][]", "[é]",
              "&amp;", "&#35;", "\\", "~~", "[a](b)c)", "[a]((((u))))", "[a](" + "(" * 33 + "u" + ")" * 33 + ")", "[a](u\x7f)", "[a](\tu\t)", "[~~a~~~](u)",
              "[a](data:image/png;base64,x)", "[a](DATA:text/html,x)", "[a](u '&quot;t&#x22;')"]

IMAGE_ATOMS = ["![a](b)", "![", "!", "![]", "![](u)", "![a]", "![a][r]", "![r][]", "![r]", "![R]", "![a](<b c> \"t\")", "![a]( b 't' )", "![a](b (t))",
               "![*a*](u)", "![a *b](u)*", "![![a](u)](v)", "![[a](u)](v)", "[![a](u)](v)", "![a](javascript:x)", "![a](JAVASCRIPT:x \"t\")", "![a](\"t\")",
               "![a]( \"t\")", "![a](u\n\"t\")", "![a](u \"t\" x)", "![a](u", "![a] (u)", "![a]\n[r]", "![a][", "![a][]", "![foo  bar]", "![a][Foo\tBar]",
               "![a\\*b &amp; c](x)", "![`]`](u)", "![<http://x.y>](u)", "![<b>](u)", "![a\nb](u)", "![a](data:image/png;base64,x)", "![a](vbscript:x)",
               "![a](<javascript:x>)", "![a](&#106;avascript:x)", "![~~a~~~](u)", "![a]((u))", "![a](u 't)", "!\\[a](u)", "\\![a](u)", "![a\\](u)", "![é]",
               "![a](" + "(" * 33 + "u" + ")" * 33 + ")", "![ ](u)", "![\n](u)", "![a][r](u)", "![a](u)[r]", "!![a](u)", "![a]!(u)"]


def inline_l_tie(ctx: Ctx, drv: Driver, n: int, image: bool = False) -> None:
    """the inline sub-parser with the `link` rule (driver `inlinel`): skipToken with its position memo, label / destination / title
    parsing, references from env, delimiter scopes, the second chain over all scopes"""
    import importlib
    import html.entities

    from markdown_it import MarkdownIt
    from markdown_it.common import normalize_url as nu
    from markdown_it.common.utils import normalizeReference
    from markdown_it.common.entities import entities as lib_entities
    import mdurl
    from markdown_it import _punycode

    linkmod = importlib.import_module("markdown_it.rules_inline.link")
    imgmod = importlib.import_module("markdown_it.rules_inline.image")
    rng = ctx.rng
    req = "inlinei" if image else "inlinel"

    def reformat(url: str) -> str:
        parsed = mdurl.parse(url, slashes_denote_host=True)
        if parsed.hostname and (not parsed.protocol or parsed.protocol in nu.RECODE_HOSTNAME_FOR):
            try:
                parsed = parsed._replace(hostname=_punycode.to_ascii(parsed.hostname))
            except Exception:
                pass
        return mdurl.format(parsed)

    def pairs(d: dict) -> str:
        return ",".join(f"{enc(k)}={enc(v)}" for k, v in d.items()) or "~"

    from . import gens
    cross = list(gens.crossing_family())
    rng.shuffle(cross)
    cross = cross[: max(200, n // 8)]
    subsets = ["tl", "tnl", "tnebl", "tnebml", "tnebsml", "tnebsmlahy", "tml", "tsl", "tbl", "tel", "l", "nebml", "tlahy", "tmlay", "tneblahy"]
    if image:
        subsets = ["ti", "tli", "tnebsmliahy", "tnebmli", "tmi", "tei", "tbi", "i", "li", "nebmli", "tiahy", "tsli", "tnebsmliahy", "tli", "tmli"]
    name_re = re.compile(r"&([^&;\s]{1,40});")
    ref_sets = [{}, {"r": ("/ref", "")}, {"r": ("/ref", "RT"), "foo bar": ("/fb", "t\"q"), "é": ("/e", "")}, {"R": ("javascript:x", "")}]
    lines, exp, meta = [], [], []
    orig_norm = linkmod.normalizeReference
    try:
        for it in range(n):
            rs = rng.choice(subsets)
            s = "".join(rng.choice(LINK_ATOMS) for _ in range(rng.randint(1, 8)))
            if image:
                s = "".join(rng.choice(IMAGE_ATOMS if rng.random() < 0.6 else LINK_ATOMS) for _ in range(rng.randint(1, 8)))
                if rng.random() < 0.15:     # descriptions nested in descriptions, in and around links
                    for _ in range(rng.randint(1, 6)):
                        s = rng.choice(["![%s](u)", "![%s][r]", "[%s](v)", "![a %s b](<w> 't')", "*%s*", "![%s]", "![%s](javascript:x)"]) % s
            if it < len(cross):
                s = cross[it]            # delimiter pairs against link boundaries, constructs with their own delimiter scope inside
                rs = rng.choice(["tnebsmlahy", "tnebmlahy", "tmla"])
                if image:
                    rs = rng.choice(["tnebsmliahy", "tnebmliahy", "tmlia"])
                    if rng.random() < 0.5:
                        s = s.replace("[", "![", 1) if rng.random() < 0.5 else "![" + s + "](u)"
            if "\r" in s or "\x00" in s:
                continue
            mn = rng.choice([20, 20, 1, 0, 2, 3, 5])
            html_on = rng.random() < 0.5
            fj = rng.random() < 0.8
            tj = rng.random() < 0.8
            store = rng.random() < 0.3
            md = MarkdownIt("zero", {"maxNesting": mn, "html": html_on, "store_labels": store})
            names = {"n": "newline", "e": "escape", "b": "backticks", "m": "emphasis", "s": "strikethrough", "a": "autolink", "h": "html_inline",
                     "y": "entity", "l": "link", "i": "image"}
            en = [names[c] for c in rs if c in names]
            if en:
                md.enable(en)
            if "t" not in rs:
                md.disable("text")
            if not fj:
                md.inline.ruler2.disable("fragments_join")
            if not tj:
                md.disable("text_join")
            refs = rng.choice(ref_sets)
            has_refs = rng.random() < 0.85
            env = {"references": {normalizeReference(k): {"href": v[0], "title": v[1]} for k, v in refs.items()}} if has_refs else {}
            seen_norm, seen_text, seen_ref = {}, {}, {}
            orig_nl, orig_nt = md.normalizeLink, md.normalizeLinkText

            def nl(u, _o=orig_nl, _d=seen_norm):
                _d[u] = reformat(u)
                return _o(u)

            def nt(u, _o=orig_nt, _d=seen_text):
                r = _o(u)
                _d[u] = r
                return r

            def nr(label, _d=seen_ref):
                r = orig_norm(label)
                _d[label] = r
                return r

            md.normalizeLink = nl
            md.normalizeLinkText = nt
            linkmod.normalizeReference = nr
            imgmod.normalizeReference = nr
            whole = image and it % 4 == 3          # the wrapper token of parseInline as well (driver `parseinline`, model parseInlineM)
            try:
                toks = md.parseInline(s, env)
                e = "ok " + " ".join(enc_toks(toks) if whole else enc_toks(toks[0].children or []))
            except Exception as ex:
                e = "e:" + type(ex).__name__
            ents = {m.group(1): lib_entities[m.group(1)] for m in name_re.finditer(s) if m.group(1) in lib_entities}
            rh = {k: v["href"] for k, v in env.get("references", {}).items()}
            rt = {k: v["title"] for k, v in env.get("references", {}).items() if v["title"]}
            lines.append(f"{'parseinline' if whole else req} {mn} {rs or '-'} {1 if fj else 0} {1 if tj else 0} {1 if html_on else 0} {pairs(ents)} "
                         f"{pairs(seen_norm)} {pairs(seen_text)} {1 if has_refs else 0} {1 if store else 0} {pairs(rh)} {pairs(rt)} {pairs(seen_ref)} {enc(s)}")
            exp.append(e)
            meta.append((s, rs, mn, fj, tj, html_on, has_refs, store, sorted(refs)))
    finally:
        linkmod.normalizeReference = orig_norm
        imgmod.normalizeReference = orig_norm
    got = drv.batch(lines)
    nlinks = nimgs = nnest = 0
    for e, g, m in zip(exp, got, meta):
        ctx.corr_compared += 1
        if enc("link_open") + "|" in e:
            nlinks += 1
        if enc("image") + "|" in e:
            nimgs += 1
            if e.count(enc("image") + "|") > 1:
                nnest += 1
        if e.strip() != g.strip():
            ctx.mismatch("inline engine with the link and image rules: implementation and model differ" if image else
                         "inline engine with the link rule: implementation and model differ",
                         {"input": m[0], "rules": m[1], "maxNesting": m[2], "fragments_join": m[3], "text_join": m[4], "html": m[5], "has_refs": m[6],
                          "store_labels": m[7], "refs": m[8], "impl": e[:600], "model": g[:600]})
    if image:
        ctx.cov["inline_i_tie"] = {"documents": len(lines), "with_links": nlinks, "with_images": nimgs, "with_several_images": nnest}
    else:
        ctx.cov["inline_l_tie"] = {"documents": len(lines), "with_links": nlinks}
