"""C20 — work grows at most linearly on adversarial inputs (guards hold).

Proof: lean/MdIt/Props/C20.lean — depth_guard_block / depth_guard_inline (at level >= maxNesting no
rule is dispatched: nesting beyond the limit is cut, not recursed into), block_dispatch_bound /
block_dispatch_linear (a block loop dispatches at most one chain per line of its range),
skip_memo / skip_evals_le (skipToken evaluates the chain at most once per position).  The global
statement (total work <= c*|src| on every family) is NOT proved (`C20.Statement`): it is decided by
measurement on the implementation.
Tie: dispatch counts of every real block loop (<= lines of its range) and evaluation/hit counts of
the real skipToken cache (evaluations <= posMax per state) are recorded on the implementation.
Oracle: for each of ~70 scalable families, Python-level calls into markdown_it (sys.setprofile) at
L, 2L, 4L: doubling the input at most roughly doubles the work, on both presets; nesting beyond
maxNesting is cut.  Known finding D9: runs of reference definitions are quadratic.
"""
from __future__ import annotations

import sys

from .common import Ctx, Finding
from . import gens, monitor

RULE = (
    "70 scalable families (brackets, emphasis/strike delimiter runs incl. rule-of-3 and mixed opener/closer runs, "
    "backtick strings, entities, angle brackets, quote/list markers, lazy lines, table rows, reference definitions, "
    "typographer triggers, ...) x lengths L, 2L, 4L (L = 300 characters quick, 6000 thorough) x 2 presets; a case is "
    "(family, preset); work = number of executed source lines and calls inside markdown_it during render (sys.settrace); non-trivial = "
    "work per character > 20; distinct by case."
)

FAM = {
    "open-brackets": lambda n: "[" * n, "close-brackets": lambda n: "]" * n, "link-open": lambda n: "[a](" * n,
    "nested-brackets": lambda n: "[" * n + "a" + "]" * n, "ref-chain": lambda n: "[a][" * n, "nested-img": lambda n: "![" * n + "x" + "](a)" * n,
    "stars": lambda n: "*" * n, "star-a": lambda n: "*a " * n, "star-us": lambda n: "*a_ " * n, "us-star": lambda n: "_a*" * n,
    "strong-mix": lambda n: "**a *b " * n, "rule3": lambda n: "*a**b" * n, "tilde": lambda n: "~~a " * n,
    "open-then-intraword-close": lambda n: "*a " * n + "b**" * n + "b", "us-open-star-close": lambda n: "_a " * n + "b*" * n,
    "strong-open-em-close": lambda n: "**a " * n + "b* " * n, "tilde-open-close": lambda n: "~~a " * n + "b~~~ " * n,
    "em-close-only": lambda n: "a* " * n, "mixed-runs": lambda n: "*a _b **c __d " * n + "e* f_ g** h__ " * n,
    "bt-lens": lambda n: " ".join("`" * (i % 40 + 1) for i in range(n)), "bt-a": lambda n: "`a " * n, "bt-run": lambda n: "`" * n + "a",
    "ent": lambda n: "&a;" * n, "ent-num": lambda n: "&#1;" * n, "amp": lambda n: "&" * n, "lt": lambda n: "<" * n, "lt-a": lambda n: "<a " * n,
    "comment": lambda n: "<!--" * n, "pi": lambda n: "<?" * n, "attr": lambda n: '<a href="' * n, "bs": lambda n: "\\" * n, "bs-a": lambda n: "\\a" * n,
    "gt": lambda n: ">" * n, "gt-sp": lambda n: "> " * n + "a", "dash-sp": lambda n: "- " * n + "a", "ol": lambda n: "1. " * n + "a",
    "lazy": lambda n: "> a\n" + "b\n" * n, "one-para": lambda n: "a\n" * n, "paras": lambda n: "a\n\n" * n, "heads": lambda n: "# a\n" * n,
    "hrs": lambda n: "***\n" * n, "open-fence": lambda n: "```\n" + "a\n" * n, "table-wide": lambda n: "|a" * n + "\n" + "|-" * n + "\n",
    "table-rows": lambda n: "|a|\n|-|\n" + "|b|\n" * n, "refdefs": lambda n: "[a]: b\n" * n, "refdef-nodest": lambda n: "[a]:\n" * n,
    "ref-use": lambda n: "[a]: b\n\n" + "[a]" * n, "quotes": lambda n: "\"a'" * n, "dashes": lambda n: "--" * n, "tabs": lambda n: "\t" * n + "a",
    "code-lines": lambda n: "    a\n" * n, "divs": lambda n: "<div>\n" * n, "deep-mix": lambda n: "> - " * n + "a", "list-items": lambda n: "- a\n" * n,
    "nested-list-lines": lambda n: "".join(" " * (2 * (i % 10)) + "- a\n" for i in range(n)), "emph-link": lambda n: "*[a](b)" * n,
    "unclosed-link-title": lambda n: '[a](b "' * n, "autolinks": lambda n: "<http://a> " * n,
    "esc-bt": lambda n: "\\``` x " * n, "esc-bt2": lambda n: "\\`` `x " * n,
}
# the same inline material behind an unclosed '[' / '![' : it is walked a second time in silent mode (link label scan)
for _k in ("bt-lens", "bt-a", "star-a", "ent", "lt-a", "bs-a", "autolinks", "esc-bt", "esc-bt2", "tilde", "quotes", "mixed-runs"):
    FAM["lb-" + _k] = (lambda f: (lambda n: "[" + f(n)))(FAM[_k])
FAM["img-esc-bt"] = lambda n: "![" + "\\``` x " * n
FAM["link-esc-bt"] = lambda n: "[" + "\\``` x " * n + "](/u)"
KNOWN_QUADRATIC = {"refdefs", "refdef-nodest"}
# families whose cost is (depth up to maxNesting) x length: linear only once the nesting is saturated (maxNesting = 100
# under js-default), so they are measured at a larger L with the cheap metric (calls only)
NEST_FAM = {"nested-brackets", "nested-img", "ref-chain", "link-open", "open-brackets", "gt-sp", "dash-sp", "deep-mix", "ol",
            "unclosed-link-title", "emph-link"}


class WorkExceeded(Exception):
    """the work budget of one measurement (far above anything linear) is used up: the run is abandoned"""


class time_cap:
    """abandon a call after `seconds` of wall-clock time (main thread only)"""

    def __init__(self, seconds):
        self.seconds = seconds

    def __enter__(self):
        import signal

        def boom(signum, frame):
            raise WorkExceeded(f"more than {self.seconds}s")
        self.old = signal.signal(signal.SIGALRM, boom)
        signal.setitimer(signal.ITIMER_REAL, self.seconds)

    def __exit__(self, *a):
        import signal
        signal.setitimer(signal.ITIMER_REAL, 0)
        signal.signal(signal.SIGALRM, self.old)
        return False


def work_cap(src):
    return 20000 * len(src) + 2_000_000


def calls_only(md, src, lib):
    n = [0]
    cap = work_cap(src)

    def prof(frame, ev, arg):
        if ev == "call" and frame.f_code.co_filename.startswith(lib):
            n[0] += 1
            if n[0] > cap:
                sys.setprofile(None)
                raise WorkExceeded(n[0])
    sys.setprofile(prof)
    try:
        md.render(src)
    finally:
        sys.setprofile(None)
    return n[0]


def calls(md, src, lib):
    """work = executed source lines + calls inside markdown_it (loops that spin without calling anything count too)"""
    n = [0]
    cap = work_cap(src)

    def local(frame, ev, arg):
        if ev == "line":
            n[0] += 1
            if n[0] > cap:
                sys.settrace(None)
                raise WorkExceeded(n[0])
        return local

    def glob(frame, ev, arg):
        if frame.f_code.co_filename.startswith(lib):
            n[0] += 1
            return local
        return None
    sys.settrace(glob)
    try:
        md.render(src)
    finally:
        sys.settrace(None)
    return n[0]


def measure(md, fam, L, lib):
    f = FAM[fam]
    unit = max(1, len(f(100)) // 100)
    c = []
    metric = calls_only if fam in NEST_FAM else calls
    if fam in NEST_FAM:
        L = L * 5
    for m in (1, 2, 4):
        s = f(max(1, L * m // unit))
        c.append((len(s), metric(md, s, lib)))
    return c


def run(ctx: Ctx) -> None:
    import markdown_it
    from markdown_it import MarkdownIt

    quick = ctx.quick()
    lib = markdown_it.__file__.rsplit("/", 1)[0]
    L = 300 if quick else 6000
    old = sys.getrecursionlimit()
    sys.setrecursionlimit(max(old, 20000))
    try:
        for preset, opts in (("commonmark", {}), ("js-default", {"typographer": True})):
            md = MarkdownIt(preset, opts)
            if preset == "js-default":
                md.enable(["table", "strikethrough"])
            table = {}
            for name in FAM:
                try:
                    c = measure(md, name, L if name not in KNOWN_QUADRATIC else max(100, L // 3), lib)
                except RecursionError:
                    ctx.fail("recursion", f"family {name} exhausts the interpreter stack at length {L}", {"family": name, "preset": preset, "L": L})
                    continue
                except WorkExceeded as e:
                    ctx.count((name, preset), nontrivial=True)
                    ctx.fail("superlinear", f"family {name}: the work budget (20000 units per character) is exhausted at length <= {4 * L} "
                             f"({preset}): {e.args[0]} units", {"family": name, "preset": preset, "L": L, "input": name})
                    continue
                # growth of the work *per character* when the input doubles (1.0 = linear)
                w = [x[1] / max(1, x[0]) for x in c]
                r1 = 2 * w[1] / max(1e-9, w[0])
                r2 = 2 * w[2] / max(1e-9, w[1])
                per = w[2]
                table[name] = [round(r1, 2), round(r2, 2), round(per, 1)]
                ctx.count((name, preset), nontrivial=per > 20)
                if max(r1, r2) > 2.35:
                    kind = ("superlinear:reference-definitions" if name in KNOWN_QUADRATIC
                            else "superlinear:smartquotes-stack" if (name in ("quotes", "lb-quotes") and opts.get("typographer")) else "superlinear")
                    ctx.fail(kind, f"family {name}: doubling the input multiplies the work by {r1:.2f}, {r2:.2f} ({preset})",
                             {"family": name, "preset": preset, "lengths": [x[0] for x in c], "calls": [x[1] for x in c], "input": name})
            ctx.cov[f"ratios[{preset}]"] = table
            if len(ctx.samples) < 2:
                ctx.sample({"preset": preset, "family": "stars", "ratios_and_calls_per_char": table.get("stars")})
        # nesting beyond maxNesting is cut, not recursed into: call count does not grow with extra depth
        FAM["mix-q-l"] = lambda n: "> " + "- " * n + "a"
        FAM["mix-l-q"] = lambda n: "- " + "> " * n + "a"
        FAM["mix-ql"] = lambda n: "> - " * n + "a"
        FAM["mix-lq-ol"] = lambda n: "1. > - " * n + "a"
        for fam in ("gt-sp", "dash-sp", "nested-brackets", "nested-img", "deep-mix", "mix-q-l", "mix-l-q", "mix-ql", "mix-lq-ol", "ol"):
            md = MarkdownIt("commonmark", {"maxNesting": 10})
            f = FAM[fam]
            # nesting is cut at the limit: no token sits deeper than maxNesting plus the two levels a list adds at once
            ctx.count(("maxLevel", fam), nontrivial=True)
            try:
                with time_cap(60):
                    deepest = max((t.level for t in md.parse(f(120))), default=0)
                if deepest > 10 + 3:
                    ctx.fail("depth-not-cut", f"family {fam}: token level {deepest} with maxNesting=10: nesting beyond the limit is not cut", {"family": fam, "input": f(120)})
                a = calls(md, f(40), lib)
                b = calls(md, f(400), lib)
            except WorkExceeded as e:
                ctx.fail("depth-not-cut", f"family {fam} with maxNesting=10: the work budget is exhausted ({e.args[0]}): nesting beyond the "
                         "limit is not cut off cheaply", {"family": fam, "preset": "commonmark", "input": fam})
                continue
            ctx.count(("maxNesting", fam), nontrivial=True)
            if b > a * 40:
                ctx.fail("depth-not-cut", f"family {fam}: work beyond maxNesting grows super-linearly ({a} -> {b} calls for 10x depth)", {"family": fam})
    finally:
        sys.setrecursionlimit(old)
    # ---- tie: guards on the implementation
    mon = monitor.Monitor()
    md = MarkdownIt("js-default")
    monitor.instrument(md, mon, record_loops=True, check_tables=False)
    ev = {"evals": 0, "hits": 0, "bad": None}
    orig_skip = md.inline.skipToken

    def skip(state):
        key = id(state)
        pos = state.pos
        hit = pos in state.cache
        before = len(state.cache)
        orig_skip(state)
        if hit:
            ev["hits"] += 1
            if len(state.cache) != before:
                ev["bad"] = "cache changed on a hit"
        else:
            ev["evals"] += 1
            if len(state.cache) > state.posMax + 1:
                ev["bad"] = f"cache holds {len(state.cache)} entries for posMax {state.posMax}"
    md.inline.skipToken = skip
    docs = [FAM[k](60) for k in ("nested-brackets", "link-open", "ref-chain", "emph-link", "nested-img", "gt-sp", "dash-sp", "lazy", "list-items")]
    # block loops entered at and beyond the nesting limit (a list raises the level by two at once)
    mdn = MarkdownIt("commonmark", {"maxNesting": 5})
    monitor.instrument(mdn, mon, record_loops=True, check_tables=False)
    for k in ("gt-sp", "dash-sp", "deep-mix", "mix-q-l", "mix-l-q", "mix-ql", "ol"):
        try:
            mdn.parse(FAM[k](12))
        except Exception:
            pass
    docs += list(gens.doc_stream(ctx.rng, 200 if quick else 3000, 6))
    for d in docs:
        try:
            with time_cap(60):
                md.render(d)
        except WorkExceeded:
            ctx.fail("superlinear", "rendering a short document takes more than 60 s", {"input": d[:400]})
            break
        except Exception:
            pass
    over = [r for r in mon.loops if len(r["script"]) > max(0, r["end"] - r["start"])]
    ctx.corr_compared += len(mon.loops)
    ctx.cov["block_loops_checked"] = len(mon.loops)
    ctx.cov["skipToken_evaluations"] = ev["evals"]
    ctx.cov["skipToken_cache_hits"] = ev["hits"]
    if over:
        ctx.mismatch("a real block loop dispatched more chains than its range has lines", {"loop": {k: over[0][k] for k in ("start", "end", "script")}})
    # replay of the recorded loops on the Lean loop (depth_guard_block is a theorem about that loop: at level >= maxNesting it
    # dispatches nothing and jumps to the end of its range)
    from .common import Driver
    drv = Driver()
    try:
        loops = mon.loops[:4000]
        got = drv.batch([monitor.loop_request(r) for r in loops])
        for r, g in zip(loops, got):
            ctx.corr_compared += 1
            if not g.startswith(f"ok {r['final_line']} "):
                ctx.mismatch("block loop: implementation and engine model end differently (nesting guard / dispatch)",
                             {"request": monitor.loop_request(r)[:500], "impl": r["final_line"], "model": g})
                break
    finally:
        drv.close()
    if ev["bad"]:
        ctx.mismatch("skipToken memoisation: " + ev["bad"], {})
    ctx.partial += [
        "the global statement (total work <= c*|src| on every family: amortised analysis of processDelimiters, parseLinkLabel, "
        "the backtick cache, the reference rule) is not proved — C20.Statement; it is decided by measurement (call counts at "
        "L, 2L, 4L on ~70 families x 2 presets); the guard mechanisms (depth cut, one dispatch per line, skipToken memo) are "
        "theorems",
    ]


def search(ctx: Ctx):
    return None


def replay(ctx: Ctx, obj: dict) -> bool:
    import markdown_it
    from markdown_it import MarkdownIt

    if "family" in obj and obj["family"] in FAM and "preset" in obj:
        lib = markdown_it.__file__.rsplit("/", 1)[0]
        md = MarkdownIt(obj["preset"], {"typographer": True} if obj["preset"] == "js-default" else {})
        if obj["preset"] == "js-default":
            md.enable(["table", "strikethrough"])
        try:
            c = measure(md, obj["family"], 300, lib)
        except WorkExceeded:
            return False
        w = [x[1] / max(1, x[0]) for x in c]
        return max(2 * w[1] / max(1e-9, w[0]), 2 * w[2] / max(1e-9, w[1])) <= 2.35
    return True
