"""Deep snapshot of everything a MarkdownIt instance holds (its own attributes and those of its parsers, rulers and
renderer), for "no hidden state" comparisons: used instance vs fresh twin (C12), before vs after a failed call (C14),
before vs after concurrent/re-entrant use (C13).  Values: primitives by repr, containers structurally, functions by
qualified name, library objects by their attributes; the rulers' compiled caches are recorded as 'compiled'/'None'
plus their chain names, since they are a function of the rule table."""
from __future__ import annotations

import types


def _leaf(v):
    if isinstance(v, (types.FunctionType, types.BuiltinFunctionType, types.MethodType)):
        f = getattr(v, "__func__", v)
        return f"<fn {getattr(f, '__module__', '?')}.{getattr(f, '__qualname__', '?')}>"
    if isinstance(v, type):
        return f"<class {v.__module__}.{v.__qualname__}>"
    return None


def deep_state(obj, path="md", out=None, seen=None, depth=0, fn_identity=False):
    if out is None:
        out, seen = {}, set()
    if depth > 8:
        out[path] = "<deep>"
        return out
    if obj is None or isinstance(obj, (bool, int, float, str, bytes)):
        out[path] = repr(obj)
        return out
    lf = _leaf(obj)
    if lf is not None:
        out[path] = lf + (f"@{id(getattr(obj, '__func__', obj))}" if fn_identity else "")
        return out
    if id(obj) in seen:
        out[path] = "<seen>"
        return out
    seen.add(id(obj))
    if isinstance(obj, dict):
        out[path] = f"<dict {len(obj)}>"
        for k in obj:
            deep_state(obj[k], f"{path}[{k!r}]", out, seen, depth + 1, fn_identity)
        return out
    if isinstance(obj, (list, tuple)):
        out[path] = f"<{type(obj).__name__} {len(obj)}>"
        for i, v in enumerate(obj):
            deep_state(v, f"{path}[{i}]", out, seen, depth + 1, fn_identity)
        return out
    if isinstance(obj, (set, frozenset)):
        out[path] = f"<set {sorted(map(repr, obj))}>"
        return out
    mod = type(obj).__module__ or ""
    if not mod.startswith("markdown_it"):
        out[path] = f"<{mod}.{type(obj).__qualname__}>"
        return out
    out[path] = f"<{mod}.{type(obj).__qualname__}>"
    names = []
    if hasattr(obj, "__dict__"):
        names += list(vars(obj))
    for klass in type(obj).__mro__:
        names += [s for s in getattr(klass, "__slots__", ()) if isinstance(s, str)]
    for n in dict.fromkeys(names):
        if n == "md":       # back reference
            continue
        try:
            v = getattr(obj, n)
        except AttributeError:
            out[f"{path}.{n}"] = "<unset>"
            continue
        if n == "__cache__":
            out[f"{path}.{n}"] = "None" if v is None else "compiled:" + ",".join(f"{k}={len(c)}" for k, c in sorted(v.items()))
            continue
        deep_state(v, f"{path}.{n}", out, seen, depth + 1, fn_identity)
    return out


def diff(a: dict, b: dict, limit=6):
    out = []
    for k in sorted(set(a) | set(b)):
        if a.get(k) != b.get(k):
            out.append(f"{k}: {a.get(k, '<absent>')} != {b.get(k, '<absent>')}")
            if len(out) >= limit:
                break
    return out
