"""C01 — parsing and rendering are total: no input crashes or hangs the library.

Proof: lean/MdIt/Props/C01.lean — block_total / block_tokenize_total and inline_total: both tokenizer
loops return normally (no exception, no endless loop) for *every* chain of rules satisfying the
rule contracts, plus the T1 obligation fallback_rules.
Tie: (i) contract monitor — every call of every real block and inline rule is checked against the
contracts the theorems assume (harness/monitor.py); (ii) engine tie — every ParserBlock.tokenize call
is replayed on the Lean loop with the recorded rule outcomes (driver `blockloop`) and must end on the
same line / tight flag; the inline loop with the modelled rules is tied in C09.
Oracle: the four API functions and the CLI entry point under a per-input wall-clock limit (a hang is a
violation with the input as replay) on G-doc x G-cfg, G-lines x 8 configurations, G-malformed.
"""
from __future__ import annotations

import itertools
import os
import signal
import tempfile

from .common import Ctx, Driver, Finding
from . import gens, monitor

RULE = (
    "inputs: G-doc (grammar-directed + damage + trap characters), delimiter runs, spec/fixture mutations, arbitrary "
    "scalar values; bounded-exhaustive documents of <=2 lines (quick) / <=3 lines (thorough) over a catalogue of line "
    "shapes; random bytes through the CLI. configurations: 8 fixed + random preset x rule subset x options "
    "(maxNesting 1..100, html, typographer, quotes, ...). a case is (input, configuration, API); non-trivial = at "
    "least one rule other than paragraph/text matched; distinct by (input, configuration)."
)


class Hang(Exception):
    pass


def _alarm(sig, frm):
    raise Hang()


APIS = ("render", "parse", "renderInline", "parseInline")


def supported(md) -> bool:
    act = md.get_active_rules()
    return ("paragraph" in act["block"] and "text" in act["inline"]
            and {"normalize", "block", "inline", "text_join"} <= set(act["core"]))


def call(md, api, src, limit=2.0):
    signal.setitimer(signal.ITIMER_REAL, limit)
    try:
        getattr(md, api)(src)
        return None
    except Hang:
        return "hang"
    except ModuleNotFoundError as e:
        if md.options.get("linkify"):
            return None  # documented: linkify switched on without the optional linkifier
        return "ModuleNotFoundError"
    except RecursionError:
        return "RecursionError"
    except BaseException as e:  # noqa: BLE001
        return type(e).__name__
    finally:
        signal.setitimer(signal.ITIMER_REAL, 0)


def run_one(ctx: Ctx, md, cfg, src, apis=APIS):
    for api in apis:
        err = call(md, api, src)
        if err:
            ctx.fail("crash" if err != "hang" else "hang", f"{api} {'did not return within the time limit' if err == 'hang' else 'raised ' + err}",
                     {"input": src, "cfg": cfg, "api": api, "error": err})
            return False
    return True


def run(ctx: Ctx) -> None:
    from markdown_it import MarkdownIt

    quick = ctx.quick()
    rng = ctx.rng
    signal.signal(signal.SIGALRM, _alarm)
    fixed = [(gens.make_md(c), c) for c in gens.FIXED_CFGS]
    # ---- corpus first: minimised past failures
    corpus = [("> a|b\n> -|-\n>", gens.FIXED_CFGS[1]), ("> a|b\n> -|-\n>", gens.FIXED_CFGS[3]), ("². x", gens.FIXED_CFGS[0]),
              ("a\n¹. x", gens.FIXED_CFGS[0]), ("[" * 30 + "a" + "](b)" * 30, gens.FIXED_CFGS[6])]
    # a nested quote whose last lines are empty returns beyond its enclosing quote's endLine (K3 was once too strict here)
    corpus += [("> > \n> \n\nfoo\n", gens.FIXED_CFGS[0]), ("> > \n>\n\n\nfoo\n", gens.FIXED_CFGS[1]), ("- > \n\n\n  foo\n", gens.FIXED_CFGS[0])]
    for src, cfg in corpus:
        run_one(ctx, gens.make_md(cfg), cfg, src)
        ctx.count(("corpus", src), nontrivial=True)
    # ---- random inputs x configurations, with the contract monitor on a share of them
    n = 2500 if quick else 80000
    mon = monitor.Monitor()
    mon_mds = []
    for c in gens.FIXED_CFGS[:6]:
        m = gens.make_md(c)
        monitor.instrument(m, mon)
        mon_mds.append((m, c))
    for src, _cfg in corpus:
        for m, _c in mon_mds[:2]:
            try:
                m.render(src)
            except Exception:
                pass
    for i, src in enumerate(gens.doc_stream(rng, n, 8)):
        k = i % 4
        if k == 0:
            cfg = gens.rand_cfg(rng)
            try:
                md = gens.make_md(cfg)
            except Exception:
                continue
            if not supported(md):
                continue
        elif k == 1:
            md, cfg = mon_mds[i % len(mon_mds)]
        else:
            md, cfg = fixed[i % len(fixed)]
        before = mon.calls
        ok = run_one(ctx, md, cfg, src, apis=("render", "parseInline") if k != 1 else ("render",))
        nontriv = any(c in src for c in "#>-*`[<|_~&\\1")
        ctx.count((src, gens.cfg_key(cfg)), nontrivial=nontriv)
        if len(ctx.samples) < 3 and nontriv and len(src) < 60:
            ctx.sample({"input": src, "cfg": gens.cfg_key(cfg)[:80]})
    # ---- bounded-exhaustive line documents
    small = gens.LINE_SHAPES + ["> " + s for s in ("", "a|b", "-|-", "[a]: b", "```", "- a", "#")]
    kmax = 2 if quick else 3
    line_cfgs = [fixed[1], fixed[3], fixed[4], fixed[5]] if quick else fixed
    nl = 0
    for k in range(1, kmax + 1):
        # thorough: the extended shape list up to 2 lines, the base list for 3 lines (131^3 x 8 renders would take an hour)
        shapes = small if (quick or k == 3) else gens.LINE_SHAPES_EXT
        for src in gens.line_docs(k, shapes):
            for md, cfg in line_cfgs:
                nl += 1
                err = call(md, "render", src, 2.0)
                if err:
                    ctx.fail("crash" if err != "hang" else "hang", f"render {'hung' if err == 'hang' else 'raised ' + err}",
                             {"input": src, "cfg": cfg, "api": "render", "error": err})
            if len(ctx.findings) > 30:
                break
    ctx.evaluations += nl
    ctx.cov["line_documents_runs"] = nl
    ctx.cov["line_documents_exhaustive_up_to_lines"] = kmax
    # ---- deep nesting / maxNesting (frame depth stays far below the interpreter's limit)
    import sys
    deep = [">" * 300 + " a", "- " * 200 + "a", "[" * 500 + "a" + "]" * 500, "*" * 2000, "![" * 300 + "a" + "](b)" * 300,
            "> - " * 150 + "x", "1. " * 120 + "x", "<" * 1000, "`" * 999 + "a", "\\" * 3001]
    from .c20 import FAM, NEST_FAM
    deep += [FAM[f](d) for f in sorted(NEST_FAM) for d in ((450, 1500) if quick else (350, 450, 700, 1500, 4000))]
    deep += ["[![" * 400 + "a" + "](b)](c)" * 400, "*[" * 600 + "a" + "](b)*" * 600, "![[" * 400 + "a" + "]](b)" * 400]
    for src in deep:
        for mn in (1, 20, 100):
            md = MarkdownIt("commonmark", {"maxNesting": mn})
            err = call(md, "render", src, 10.0)
            ctx.count(("deep", src[:8], mn), nontrivial=True)
            if err:
                ctx.fail("crash" if err != "hang" else "hang", f"render raised/hung on deep nesting: {err}",
                         {"input": src, "cfg": {"preset": "commonmark", "options": {"maxNesting": mn}, "enable": [], "disable": []},
                          "api": "render", "error": err})
    # ---- CLI: files of arbitrary bytes
    from markdown_it.cli import parse as cli
    import io
    import contextlib
    ncli = 60 if quick else 1500
    with tempfile.TemporaryDirectory() as td:
        for i in range(ncli):
            data = bytes(rng.randrange(256) for _ in range(rng.randint(0, 60)))
            if i % 3 == 0:
                data = next(gens.doc_stream(rng, 1, 5)).encode("utf8", "surrogatepass")[: rng.randint(1, 80)]
            p = os.path.join(td, "f.md")
            with open(p, "wb") as f:
                f.write(data)
            signal.setitimer(signal.ITIMER_REAL, 3.0)
            try:
                with contextlib.redirect_stdout(io.StringIO()):
                    cli.main([p])
                err = None
            except Hang:
                err = "hang"
            except SystemExit as e:
                err = None if not e.code else f"SystemExit({e.code})"
            except BaseException as e:  # noqa: BLE001
                err = type(e).__name__
            finally:
                signal.setitimer(signal.ITIMER_REAL, 0)
            ctx.count(("cli", data), nontrivial=True)
            if err:
                ctx.fail("crash" if err != "hang" else "hang", f"markdown_it.cli.parse.main {err} on a file of arbitrary bytes",
                         {"input": data.decode("latin1"), "bytes_hex": data.hex(), "api": "cli", "error": err})
    # ---- tie: contracts and engine replay
    ctx.cov["rule_calls_monitored"] = mon.calls
    ctx.cov["block_rule_calls"] = mon.block_calls
    ctx.cov["inline_rule_calls"] = mon.inline_calls
    for v in mon.violations[:10]:
        ctx.mismatch("rule contract violated on the implementation: " + v["what"], {k: (w if not isinstance(w, str) else w[:400]) for k, w in v.items()})
    drv = Driver()
    try:
        loops = mon.loops[: 3000 if quick else 40000]
        got = drv.batch([monitor.loop_request(r) for r in loops])
        for r, g in zip(loops, got):
            ctx.corr_compared += 1
            want = f"ok {r['final_line']}"
            ok = g.startswith(want + " ")
            if ok and r["script"]:
                ok = g == f"{want} {1 if r['final_tight'] else 0}"
            if not ok:
                ctx.mismatch("block loop: implementation and engine model end differently",
                             {"request": monitor.loop_request(r)[:600], "impl": f"{want} {r['final_tight']}", "model": g})
        ctx.cov["block_loops_replayed"] = len(loops)
        # tie of the modelled block sub-parser (mini_total is a theorem about exactly this model)
        from . import miniblock
        miniblock.tie_all(ctx, drv, quick)
        from . import rxtie
        rxtie.tie_leaf(ctx, drv, quick)      # translated regular expressions + inline leaf rules (autolink, html_inline, entity)
        from . import pipeline
        pipeline.tie_full(ctx, drv, 2000 if quick else 60000)     # MarkdownIt.parse end to end on the modelled sub-language
        pipeline.tie_full(ctx, drv, 2500 if quick else 60000, ref=True)     # ... with the reference block rule (ten of eleven block rules)
        pipeline.tie_full(ctx, drv, 2000 if quick else 60000, table=True)     # all eleven block rules: the table rule in the main chain and as a terminator (driver `fullparset`)
    finally:
        drv.close()
    ctx.partial += [
        "the rule contracts (K1-K5) are hypotheses of block_total/inline_total. They are PROVED (Props/C01b.lean: ruleOK_code, "
        "ruleOK_fence, ruleOK_hr, ruleOK_heading, ruleOK_paragraph, paragraph_always) for the block rules code, fence, hr, "
        "heading and paragraph, whose models are tied to the real rules by whole-document differential runs under all 16 "
        "rule subsets (`miniblock`), giving the unconditional theorem mini_total for that sub-parser; for the container "
        "rule blockquote (Props/C01c.lean: quoteScan_ok, restore_lines, quote_shape, ruleOK_blockquote by induction on the "
        "nesting budget), giving q_total for the sub-parser with block quotes nested to any depth (model tied by `qblock`); for "
        "the container rule list (Props/C01d.lean: listNested_ok, listClose_ok, listItem_ok, listItems_ok, listRun_ok, ruleOK_list) "
        "giving l_total for the sub-parser code/fence/blockquote/hr/list/heading/paragraph with quotes and lists nested in each "
        "other to any depth (model tied by `lblock`); "
        "and for the inline rules text, newline, escape and backticks (Props/C01e.lean: contracts relative to the inline loop's call "
        "context pos < posMax <= len(src) — the rules index src[pos] —, inline_total2, iok_*; the backtick rule with its closer cache "
        "and its search over the whole source), giving imini_total for the inline sub-parser under every subset of those rules "
        "(model tied by the `inline` differential runs), and with the emphasis rule (scanDelims, tokenize, balance_pairs, _postProcess: "
        "Props/C01f.lean iok_emphasis, iok_strike, emini_total, smini_total — strikethrough with its lone-marker swap included —, for every character classification), and with autolink, html_inline, entity (Props/C01g.lean "
        "iok_autolink, iok_htmlInline, iok_entity, xmini_total; their regular expressions are translated from the live pattern objects, tie `inlinex` + `rx`). "
        "and with the link rule (Props/C01i.lean link_total: skipToken's memo, label/destination/title parsing, references, nested tokenize, delimiter scopes; tie `inlinel`) "
        "and with the image rule (Props/C01j.lean image_total: the nested run of the whole inline parser on the description; eleven of twelve inline rules; tie `inlinei`). "
        "and with html_block, lheading (Props/C01h.lean m_total) and the table rule (Props/C01l.lean ruleOK_table, table_silent_ok under SilentInertE, "
        "tChain_ok, t_total: ten of eleven block rules; Props/C01k/m full_total, fullT_total end to end; tie `fullparset`). "
        "For the reference rule everything but the upper bound of K3 is proved (Props/C16b); for it and for linkify the contracts are "
        "monitored on every call on the implementation",
        "renderer totality follows from structural recursion on tokens in the renderer model (C04); CPython's real stack "
        "limit, memory and `re` engine time are not exhibited by the model: covered by the per-input time limit and the deep-"
        "nesting probes",
    ]


def search(ctx: Ctx):
    signal.signal(signal.SIGALRM, _alarm)
    c = Ctx(ctx.pid, "quick", ctx.seed + 13)
    fixed = [(gens.make_md(cf), cf) for cf in gens.FIXED_CFGS]
    # the inputs on which model and implementation disagreed come first: where the model returns and the code raises, that input
    # (with and without its trailing newline, bare and wrapped in the containers) is the replay
    seen = []
    for mm in ctx.mismatches:
        src = mm.get("input")
        if isinstance(src, str) and src not in seen:
            seen.append(src)
    for src0 in seen[:40]:
        variants = [src0, src0.rstrip("\n"), src0 + "\n"]
        variants += ["> " + v.replace("\n", "\n> ") for v in variants[:2]] + ["- " + v.replace("\n", "\n  ") for v in variants[:2]]
        for src in variants:
            for md, cfg in fixed:
                for api in ("render", "parse"):
                    err = call(md, api, src, 2.0)
                    if err:
                        return Finding("crash" if err != "hang" else "hang", f"{api}: {err}", {"input": src, "cfg": cfg, "api": api, "error": err})
    # unclosed / indented verbatim blocks at the end of a container whose last line is only the container's marker, no final newline
    for opener in ("```", "~~~", " ```", "  ~~~", "   ```", "- ```", "1. ~~~", "    code", "<pre>", "<!--", "[r]:", "a\n==="):
        for pre, last in (("> ", ">"), ("> ", "> "), (">  ", ">"), ("> - ", ">"), ("> > ", "> >"), ("- ", ""), ("- ", " "), ("> ", ">\t"), (">", ">")):
            for tail in ("", "\n"):
                src = pre + opener.replace("\n", "\n" + pre) + "\n" + last + tail
                for md, cfg in fixed:
                    err = call(md, "render", src, 2.0)
                    if err:
                        return Finding("crash" if err != "hang" else "hang", f"render: {err}", {"input": src, "cfg": cfg, "api": "render", "error": err})
    for k in (1, 2):
        for src in gens.line_docs(k, gens.LINE_SHAPES_EXT if k == 1 else gens.LINE_SHAPES):
            for md, cfg in fixed:
                err = call(md, "render", src, 2.0)
                if err:
                    return Finding("crash" if err != "hang" else "hang", f"render: {err}", {"input": src, "cfg": cfg, "api": "render", "error": err})
    for src in gens.doc_stream(c.rng, 20000, 8):
        for md, cfg in fixed[:4]:
            err = call(md, "render", src, 2.0)
            if err:
                return Finding("crash" if err != "hang" else "hang", f"render: {err}", {"input": src, "cfg": cfg, "api": "render", "error": err})
    return None


def replay(ctx: Ctx, obj: dict) -> bool:
    signal.signal(signal.SIGALRM, _alarm)
    if "input" in obj and "cfg" in obj and obj.get("api") in APIS:
        return call(gens.make_md(obj["cfg"]), obj["api"], obj["input"], 5.0) is None
    return True
