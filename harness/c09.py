"""C09 — backslash-escaping makes any text literal in every inline context.

Proof: lean/MdIt/Props/C09.lean — T1 obligations punct_tables / terminators_punct /
backslash_terminates (every ASCII punctuation character is escapable in all three tables of the
current source), unescape_escape (unescapeAll ∘ escapeAll = id for every text and entity table:
titles, destinations, info strings), escape_punct, text/newline_declines_at_backslash (the unit
steps of the inline loop on escaped text).
Tie: the inline engine model (text, newline, escape, fragments_join, text_join) vs the real
ParserInline under rule subsets and maxNesting values; unescapeAll vs the real function.
Oracle: the property's templated documents — t over printable ASCII, blanks, non-ASCII letters/
punctuation/blanks/format characters, controls — in 7 contexts x {backslash, decimal, hex, named}
encodings x 2 presets, expected HTML computed from t.
"""
from __future__ import annotations

import string

from .common import Ctx, Driver, Finding, enc, dec
from .tokcodec import enc_toks

RULE = (
    "texts t (1-8 characters over ASCII letters, all ASCII punctuation, blanks/tab, non-ASCII letters, punctuation, "
    "blanks and format characters, C0 controls and DEL) x contexts {paragraph, heading, emphasis, link text, image "
    "alt, link title, table cell} x encodings {backslash, &#N;, &#xH;, named} x presets {commonmark+table+"
    "strikethrough, js-default}; a case is (t, context, encoding, preset); non-trivial = t contains at least one "
    "ASCII punctuation character; distinct by case."
)

PUNCT = string.punctuation
ALPH = list("abcdXY") + list(PUNCT) + list(PUNCT) + [" ", " ", "\t", "é", "«", "\xa0", "​", "中", "—", "\x01", "\x7f", " ",
                                                     "ß", "\x1f", "¡", "¶", "﻿", "\x0b", "0", "9"]
def _named():
    """char -> a named character reference that denotes exactly that char (from the interpreter's html5 table)"""
    import html.entities

    out = {}
    for name, val in sorted(html.entities.html5.items()):
        if name.endswith(";") and len(val) == 1 and val not in out and name[:-1].isalnum() and len(name) <= 32:
            out[val] = "&" + name
    return out


NAMED = _named()


def esc_bs(t):
    return "".join("\\" + c if c in PUNCT else c for c in t)


def esc_ent(rng, t, mode):
    out = []
    for c in t:
        if c in PUNCT or (ord(c) > 127 and rng.random() < 0.5):
            if mode == 0:
                out.append("&#%d;" % ord(c))
            elif mode == 1:
                out.append(("&#x%X;" if rng.random() < 0.5 else "&#X%x;") % ord(c))
            else:
                n = NAMED.get(c)
                out.append(n if n else "&#%d;" % ord(c))
        else:
            out.append(c)
    return "".join(out)


def ent_ok(c):
    o = ord(c)
    return not (o < 32 or 0x7F <= o <= 0x9F or 0xFDD0 <= o <= 0xFDEF or (o & 0xFFFF) in (0xFFFE, 0xFFFF))


CTX = {
    "para": ("%s\n", "<p>%s</p>\n", False),
    "head": ("# %s\n", "<h1>%s</h1>\n", False),
    "em": ("*x%sx*\n", "<p><em>x%sx</em></p>\n", False),
    # emphasis-like content without padding: the escaped text touches the closing delimiter run
    "strong": ("**%s**\n", "<p><strong>%s</strong></p>\n", False),
    "strike": ("~~%s~~\n", "<p><s>%s</s></p>\n", False),
    "link": ("[%s](/u)\n", '<p><a href="/u">%s</a></p>\n', False),
    "alt": ("![%s](/u)\n", '<p><img src="/u" alt="%s"%s></p>\n', False),
    "title": ('[x](/u "%s")\n', '<p><a href="/u" title="%s">x</a></p>\n', True),
    "cell": ("|%s|\n|-|\n", "<table>\n<thead>\n<tr>\n<th>%s</th>\n</tr>\n</thead>\n</table>\n", False),
    # rows written without the optional enclosing pipes: the text is the last / the first cell and touches the end / start of the row
    "cell_last": ("x|%s\n-|-\n", "<table>\n<thead>\n<tr>\n<th>x</th>\n<th>%s</th>\n</tr>\n</thead>\n</table>\n", False),
    "cell_first": ("%s|x\n-|-\n", "<table>\n<thead>\n<tr>\n<th>%s</th>\n<th>x</th>\n</tr>\n</thead>\n</table>\n", False),
    "cell_body_last": ("h|k\n-|-\ny|%s\n", "<table>\n<thead>\n<tr>\n<th>h</th>\n<th>k</th>\n</tr>\n</thead>\n<tbody>\n<tr>\n<td>y</td>\n<td>%s</td>\n</tr>\n</tbody>\n</table>\n", False),
}


def one(ctx: Ctx, rng, mds, t):
    from markdown_it.common.utils import escapeHtml

    for cname, (tmpl, exp, blanks_ok) in CTX.items():
        tt = t if blanks_ok else t.strip(" \t")
        if not tt:
            continue
        if not blanks_ok and (tt != tt.strip()):
            continue  # Unicode blanks at the ends: "leading/trailing whitespace" is excluded by the property
        for form in ("bs", "ent0", "ent1", "named"):
            if form != "bs" and not all(ent_ok(c) for c in tt):
                continue
            src_t = esc_bs(tt) if form == "bs" else esc_ent(rng, tt, {"ent0": 0, "ent1": 1, "named": 2}[form])
            for mname, md in mds.items():
                want_t = escapeHtml(tt)
                want = exp % ((want_t, " /" if mname == "cm" else "") if cname == "alt" else want_t)
                doc = tmpl % src_t
                try:
                    got = md.render(doc)
                except Exception as e:
                    got = "EXC " + type(e).__name__
                ctx.count((tt, cname, form, mname), nontrivial=any(c in PUNCT for c in tt))
                if got != want:
                    kind = "literal:" + cname
                    if cname.startswith("cell") and form == "bs" and (tt.endswith("\\") or "\\|" in tt):
                        kind = "cell:backslash-before-pipe"
                    ctx.fail(kind, f"escaped text is not literal in context {cname} ({form}, {mname})",
                             {"input": doc, "t": tt, "context": cname, "encoding": form, "preset": mname, "got": got, "want": want})


def run(ctx: Ctx) -> None:
    from markdown_it import MarkdownIt
    from markdown_it.common.utils import unescapeAll

    quick = ctx.quick()
    rng = ctx.rng
    mds = {"cm": MarkdownIt().enable(["table", "strikethrough"]), "js": MarkdownIt("js-default")}
    n = 700 if quick else 20000
    # single characters first (every ASCII punctuation character alone and doubled), then random texts
    one(ctx, rng, mds, "a\\")                               # known finding D12 (always exercised)
    for c in PUNCT:
        one(ctx, rng, mds, c)
        one(ctx, rng, mds, c + c)
        one(ctx, rng, mds, "a" + c + "b")
    # named references whose names differ only in case denote different characters (&Auml; / &auml;, &Dagger; / &dagger;, …): both
    # spellings in one text, in one process, each must come out as its own character
    import html.entities as _he
    from markdown_it.common.utils import escapeHtml as _esc
    groups = {}
    for name, val in _he.html5.items():
        if name.endswith(";") and name[:-1].isalnum():
            groups.setdefault(name.lower(), []).append((name, val))
    pairs = sorted(g for g in groups.values() if len({v for _, v in g}) > 1)
    chosen = [g for g in pairs if g[0][0].lower() in ("auml;", "dagger;", "vert;", "gt;", "colon;")] + rng.sample(pairs, min(len(pairs), 25 if quick else 348))
    for g in chosen:
        src_t = "".join("&" + nm for nm, _ in g)
        want_t = _esc("".join(v for _, v in g))
        for mname, md in mds.items():
            for tmpl, exp in (("%s\n", "<p>%s</p>\n"), ("# x%s\n", "<h1>x%s</h1>\n"), ("[%s](/u)\n", '<p><a href="/u">%s</a></p>\n')):
                doc = tmpl % src_t
                try:
                    got = md.render(doc)
                except Exception as e:
                    got = "EXC " + type(e).__name__
                ctx.count((src_t, mname, tmpl, "named-case"), nontrivial=True)
                if got != exp % want_t:
                    ctx.fail("literal:named-case", "named references that differ only in case are not decoded each to its own character",
                             {"input": doc, "t": "".join(v for _, v in g), "context": "para", "encoding": "named", "preset": mname, "got": got, "want": exp % want_t})
    for _ in range(n):
        t = "".join(rng.choice(ALPH) for _ in range(rng.randint(1, 8)))
        one(ctx, rng, mds, t)
        if len(ctx.samples) < 3:
            ctx.sample({"t": t, "escaped": esc_bs(t)})
    # ---- tie: inline engine
    drv = Driver()
    try:
        AL = ["a", "b", " ", "  ", "\n", "\\", "\\*", "\\a", "*", "&", "\t", "é", "\\\n", "x  \n", "!", "[", "😀", "\\\\", "$", ":", "_",
              "\\&", "\\<", "   \n", "\\ "]
        ALB = AL + ["`", "``", "```", "\\`", "` `", " ` ", "`a`", "`` ` ``"]
        ALS = ALB + ["~", "~~", "~~~", "~~~~", "~~~~~", "*", "**", "_", "b~~", "~~c", "~*", "*~", "\\~", "a~~b", "(~~", "~~)"] * 2
        ALM = ALB + ["*", "**", "***", "_", "__", "b*", "*c", "_d_", "**e", "f**", "*_", "_*", "é*", "*é", "a*b", "(*", "*)", "._", "_.", "“", "a_b"] * 2
        lines, exp, meta = [], [], []
        for it in range(3500 if quick else 70000):
            rs = rng.choice(["tne", "te", "tn", "t", "ne", "e", "", "tneb", "tb", "teb", "b", "tnb", "neb", "tnebm", "tm", "tem", "tbm", "m", "nebm", "tnebsm", "ts", "tes", "tbsm", "tsm", "s", "nebs"])
            s = "".join(rng.choice(ALS if "s" in rs else ALM if "m" in rs else ALB if "b" in rs else AL)
                        for _ in range(rng.randint(0, 14 if ("m" in rs or "s" in rs) else 12 if "b" in rs else 10)))
            if it % 4 == 0:
                s = esc_bs("".join(rng.choice(ALPH) for _ in range(rng.randint(1, 8))).replace("\x0b", ""))
            mn = rng.choice([20, 1, 0, 3])
            fj = rng.random() < 0.7
            tj = rng.random() < 0.7
            md = MarkdownIt("zero", {"maxNesting": mn})
            en = [{"n": "newline", "e": "escape", "b": "backticks", "m": "emphasis", "s": "strikethrough"}[c] for c in rs if c in "nebms"]
            if en:
                md.enable(en)
            if "t" not in rs:
                md.disable("text")
            if not fj:
                md.inline.ruler2.disable("fragments_join")
            if not tj:
                md.disable("text_join")
            if "\r" in s or "\x00" in s:
                continue
            try:
                toks = md.parseInline(s)
                e = "ok " + " ".join(enc_toks(toks[0].children or []))
            except Exception as ex:
                e = "e:" + type(ex).__name__
            lines.append(f"inline {mn} {rs or '-'} {1 if fj else 0} {1 if tj else 0} {enc(s)}")
            exp.append(e)
            meta.append((s, rs, mn, fj, tj))
        got = drv.batch(lines)
        for e, g, m in zip(exp, got, meta):
            ctx.corr_compared += 1
            if e.strip() != g.strip():
                ctx.mismatch("inline engine (text/newline/escape/backticks/strikethrough/emphasis/balance_pairs/fragments_join/text_join): implementation and model differ",
                             {"input": m[0], "rules": m[1], "maxNesting": m[2], "fragments_join": m[3], "text_join": m[4],
                              "impl": e[:400], "model": g[:400]})
        # ---- tie: unescapeAll (entity table not modelled: inputs whose &…; sequences are not entities, or escaped)
        strs = []
        for _ in range(1500 if quick else 20000):
            t = "".join(rng.choice(ALPH + ["\\", "\\\\", "&zzq;", "&#;", "&x", "&;", "\n"]) for _ in range(rng.randint(0, 10)))
            strs.append(t if rng.random() < 0.5 else esc_bs(t))
        strs = [s for s in strs if unescapeAll(s.replace("&", "&\x01")).replace("&\x01", "&") == unescapeAll(s)]
        got = drv.batch(["unescape " + enc(s) for s in strs])
        for s, g in zip(strs, got):
            ctx.corr_compared += 1
            if enc(unescapeAll(s)) != g:
                ctx.mismatch("unescapeAll: implementation and model differ", {"input": s, "impl": unescapeAll(s), "model": dec(g)})
                break
        from . import rxtie
        rxtie.tie_leaf(ctx, drv, quick)      # translated regular expressions + inline leaf rules (autolink, html_inline, entity)
        from . import pipeline
        pipeline.tie_full(ctx, drv, 2000 if quick else 50000, ref=True)     # MarkdownIt.parse end to end, reference rule included
        pipeline.tie_full(ctx, drv, 1500 if quick else 40000, table=True)     # all eleven block rules: the table rule in the main chain and as a terminator (driver `fullparset`)
    finally:
        drv.close()
    ctx.partial += [
        "C09.inline_literal is proved for the backslash encoding at the inline level (Props/C09b.lean: for every text t "
        "without line feed, every chain text :: mid ++ escape :: post whose mid rules decline at a backslash, every "
        "rules2 chain inert without delimiters and every maxNesting >= 1, the inline parse of escapeAll t followed by "
        "fragments_join and text_join is exactly one text token holding t). NOT proved: texts containing line feeds "
        "(newline rule), the '&#N;' encoding, and the block-level contexts (heading, emphasis, link text, alt, cell), "
        "which are decided by the oracle",
        "the character-reference form depends on the html5 entity table (external); numeric references are covered by the oracle",
    ]


def search(ctx: Ctx):
    from markdown_it import MarkdownIt

    c = Ctx(ctx.pid, "quick", ctx.seed + 5)
    mds = {"cm": MarkdownIt().enable(["table", "strikethrough"]), "js": MarkdownIt("js-default")}
    from .common import load_known, match_known
    known = load_known()
    for _ in range(3000):
        t = "".join(c.rng.choice(ALPH) for _ in range(c.rng.randint(1, 6)))
        one(c, c.rng, mds, t)
        for f in c.findings:
            if match_known(ctx.pid, f, known) is None:
                return f
        c.findings.clear()
    return None


def replay(ctx: Ctx, obj: dict) -> bool:
    from markdown_it import MarkdownIt

    if "want" in obj:
        md = MarkdownIt().enable(["table", "strikethrough"]) if obj.get("preset") == "cm" else MarkdownIt("js-default")
        return md.render(obj["input"]) == obj["want"]
    return True
