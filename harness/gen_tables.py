"""T1 — regenerate the data tables of the Lean model from /repo's working tree.

Writes lean/MdIt/Generated/Tables.lean (only when its content changes, so an unchanged tree triggers
no rebuild).  The tables are *runtime values* imported from the live modules (robust against
refactoring); theorems that consume them are re-checked against what the code says now.
"""
from __future__ import annotations

import re
import sys

from . import common


def lstr(s: str) -> str:
    out = ['"']
    for c in s:
        o = ord(c)
        if c == '"':
            out.append('\\"')
        elif c == "\\":
            out.append("\\\\")
        elif c == "\n":
            out.append("\\n")
        elif c == "\t":
            out.append("\\t")
        elif c == "\r":
            out.append("\\r")
        elif o < 0x20 or o == 0x7F:
            out.append("\\x%02x" % o)
        elif 0x80 <= o <= 0x9F or o in (0x2028, 0x2029, 0xFEFF):
            out.append("\\u%04x" % o)
        else:
            out.append(c)
    out.append('"')
    return "".join(out)


def llist(xs, f=lstr) -> str:
    return "[" + ", ".join(f(x) for x in xs) + "]"


def lbool(b) -> str:
    return "true" if b else "false"


def _alternation(pattern: str, prefix: str, suffix: str) -> list[str]:
    """Parse `^prefix(a|b|c)suffix` structurally; raise if the shape is different."""
    m = re.fullmatch(re.escape(prefix) + r"\(([a-z|]+)\)" + re.escape(suffix), pattern)
    if not m:
        raise ValueError(f"regex shape not understood: {pattern!r}")
    return m.group(1).split("|")


VOCAB_UNKNOWN: list[str] = []


def scan_vocab():
    """AST scan (code-shape scan, advisory: see DESIGN §4.1): tag and attribute-name literals."""
    import ast

    tags, keys, unknown = set(), set(), []

    def tag_expr(e, where):
        if isinstance(e, ast.Constant) and isinstance(e.value, str):
            tags.add(e.value)
        elif isinstance(e, ast.IfExp):
            tag_expr(e.body, where)
            tag_expr(e.orelse, where)
        elif (isinstance(e, ast.BinOp) and isinstance(e.op, ast.Add) and isinstance(e.left, ast.Constant)
              and e.left.value == "h" and ast.unparse(e.right) == "str(level)"):
            tags.update(f"h{i}" for i in range(1, 7))
        elif isinstance(e, ast.Name) and e.id in ("tag",):
            pass  # StateBlock.push / StateInline.push forward their parameter
        elif isinstance(e, ast.Attribute) and e.attr == "tag":
            pass  # copies another token's tag
        else:
            unknown.append(where + " tag=" + ast.unparse(e))

    root = common.REPO / "markdown_it"
    for f in sorted(root.rglob("*.py")):
        if f.name in ("token.py", "tree.py") or "cli" in f.parts:
            continue
        try:
            tree = ast.parse(f.read_text())
        except SyntaxError:
            continue
        rel = str(f.relative_to(common.REPO))
        for node in ast.walk(tree):
            if isinstance(node, ast.Call):
                fn = node.func
                name = fn.attr if isinstance(fn, ast.Attribute) else (fn.id if isinstance(fn, ast.Name) else "")
                where = f"{rel}:{node.lineno}"
                if name == "Token" or (name == "push" and len(node.args) == 3 and isinstance(fn, ast.Attribute)
                                       and not ast.unparse(fn.value).endswith("ruler")):
                    args = list(node.args)
                    kw = {k.arg: k.value for k in node.keywords}
                    tagarg = args[1] if len(args) > 1 else kw.get("tag")
                    if tagarg is not None:
                        tag_expr(tagarg, where)
                    if "attrs" in kw and isinstance(kw["attrs"], ast.Dict):
                        for k in kw["attrs"].keys:
                            if isinstance(k, ast.Constant):
                                keys.add(k.value)
                if name in ("attrSet", "attrJoin") and node.args:
                    a0 = node.args[0]
                    if isinstance(a0, ast.Constant) and isinstance(a0.value, str):
                        keys.add(a0.value)
                    elif rel.endswith("token.py"):
                        pass
                    else:
                        unknown.append(where + " attr key=" + ast.unparse(a0))
            if isinstance(node, ast.Assign):
                for tgt in node.targets:
                    if isinstance(tgt, ast.Attribute) and tgt.attr == "tag":
                        tag_expr(node.value, f"{rel}:{node.lineno}")
                    if isinstance(tgt, ast.Attribute) and tgt.attr == "attrs":
                        if isinstance(node.value, ast.Dict):
                            for k in node.value.keys:
                                if isinstance(k, ast.Constant) and isinstance(k.value, str):
                                    keys.add(k.value)
                                else:
                                    unknown.append(f"{rel}:{node.lineno} attrs key")
    VOCAB_UNKNOWN[:] = unknown
    return sorted(tags), sorted(keys), unknown


def scan_pins():
    """(pins, callers): for each block rule, the literal it assigns to state.parentType before running a
    terminator chain / nested tokenize, and the rules whose source runs a terminator chain (`getRules(`)."""
    import inspect
    from markdown_it import parser_block

    pins, callers = [], []
    for name, fn, _alt in parser_block._rules:
        try:
            src = inspect.getsource(fn)
        except (OSError, TypeError):
            continue
        m = re.search(r"state\.parentType\s*=\s*[\"']([A-Za-z_]+)[\"']", src)
        if m:
            pins.append((name, m.group(1)))
        if "getRules(" in src:
            callers.append(name)
    return pins, callers


def scan_terminator_chains():
    """(rule, chain name) for every `getRules("<chain>")` call in a block rule's source"""
    import inspect
    from markdown_it import parser_block

    out = []
    for name, fn, _alt in parser_block._rules:
        try:
            src = inspect.getsource(fn)
        except (OSError, TypeError):
            continue
        for m in re.finditer(r"getRules\(\s*[\"']([a-z_]*)[\"']\s*\)", src):
            out.append((name, m.group(1)))
    return out


def scan_parent_readers():
    """block rules whose source tests state.parentType (reads it, other than to save/restore)"""
    import inspect
    from markdown_it import parser_block

    out = []
    for name, fn, _alt in parser_block._rules:
        try:
            src = inspect.getsource(fn)
        except (OSError, TypeError):
            continue
        if re.search(r"parentType\s*(==|!=|\bin\b|\bnot in\b|\bis\b)", src):
            out.append(name)
    return out


def generate() -> list[str]:
    common.use_repo()
    import importlib

    for m in [k for k in sys.modules if k == "markdown_it" or k.startswith("markdown_it.")]:
        del sys.modules[m]
    import markdown_it  # noqa: F401
    from markdown_it import parser_block, parser_core, parser_inline
    from markdown_it.common import normalize_url, utils as cutils
    from markdown_it.main import _PRESETS
    escape_mod = importlib.import_module("markdown_it.rules_inline.escape")
    text_mod = importlib.import_module("markdown_it.rules_inline.text")

    importlib.invalidate_caches()
    L: list[str] = []
    w = L.append
    w("/-! GENERATED by harness/gen_tables.py from /repo's working tree — do not edit. -/")
    w("namespace MdIt.Gen")
    w("")
    w("/-- `parser_block._rules` : (name, alt chains) in registration order -/")
    w("def blockRules : List (String × List String) := "
      + llist(parser_block._rules, lambda r: f"({lstr(r[0])}, {llist(r[2])})"))
    w("/-- `parser_inline._rules` -/")
    w("def inlineRules : List String := " + llist([r[0] for r in parser_inline._rules]))
    w("/-- `parser_inline._rules2` -/")
    w("def inlineRules2 : List String := " + llist([r[0] for r in parser_inline._rules2]))
    w("/-- `parser_core._rules` -/")
    w("def coreRules : List String := " + llist([r[0] for r in parser_core._rules]))
    w("")
    w("structure Preset where")
    w("  name : String")
    w("  maxNesting : Nat")
    w("  html : Bool")
    w("  linkify : Bool")
    w("  typographer : Bool")
    w("  xhtmlOut : Bool")
    w("  breaks : Bool")
    w("  langPrefix : String")
    w("  quotes : String")
    w("  coreR : Option (List String)")
    w("  blockR : Option (List String)")
    w("  inlineR : Option (List String)")
    w("  inline2R : Option (List String)")
    w("deriving Repr, DecidableEq")
    w("")

    def comp(cfg, name, key):
        c = cfg.get("components", {}).get(name, {}).get(key)
        return "none" if not c else f"some {llist(c)}"

    plist = []
    for pname, cfg in _PRESETS.items():
        o = cfg["options"]
        ident = "preset_" + re.sub(r"\W", "_", pname)
        plist.append(ident)
        w(f"def {ident} : Preset := {{ name := {lstr(pname)}, maxNesting := {int(o['maxNesting'])}, "
          f"html := {lbool(o['html'])}, linkify := {lbool(o['linkify'])}, "
          f"typographer := {lbool(o['typographer'])}, xhtmlOut := {lbool(o['xhtmlOut'])}, "
          f"breaks := {lbool(o['breaks'])}, langPrefix := {lstr(o['langPrefix'])}, quotes := {lstr(o["quotes"])}, "
          f"coreR := {comp(cfg, 'core', 'rules')}, blockR := {comp(cfg, "block", "rules")}, "
          f"inlineR := {comp(cfg, 'inline', 'rules')}, inline2R := {comp(cfg, 'inline', 'rules2')} }}")
    w("def presets : List Preset := [" + ", ".join(plist) + "]")
    w("")
    w("/-- `rules_inline/escape.py: _ESCAPED` (code points that a backslash escapes) -/")
    esc = sorted(ord(c) for c in escape_mod._ESCAPED)
    w("def escaped : List Nat := " + llist(esc, str))
    w("/-- `common/utils.py: MD_ASCII_PUNCT` -/")
    w("def mdAsciiPunct : List Nat := " + llist(sorted(cutils.MD_ASCII_PUNCT), str))
    w("/-- `common/utils.py: MD_WHITESPACE` -/")
    w("def mdWhitespace : List Nat := " + llist(sorted(cutils.MD_WHITESPACE), str))
    w("/-- `rules_inline/text.py: _TerminatorChars` -/")
    w("def terminatorChars : List Nat := " + llist(sorted(ord(c) for c in text_mod._TerminatorChars), str))
    w("/-- the escapable set of `UNESCAPE_ALL_RE` (first alternative), extracted from the live pattern -/")
    pat = cutils.UNESCAPE_ALL_RE.pattern
    m = re.match(r"\\\\\(\[(.*?)\]\)\|", pat, re.S)
    if not m:
        raise ValueError("UNESCAPE_ALL_RE shape not understood")
    cls = re.compile("[" + m.group(1) + "]")
    w("def unescapable : List Nat := " + llist([i for i in range(128) if cls.fullmatch(chr(i))], str))
    w("def unescapeIgnoreCase : Bool := " + lbool(bool(cutils.UNESCAPE_ALL_RE.flags & re.I)))
    w("")
    w("/-- literal alternation of `BAD_PROTO_RE` (= `^(..|..):`) -/")
    w("def badProtos : List String := " + llist(_alternation(normalize_url.BAD_PROTO_RE.pattern, "^", ":")))
    w("/-- literal alternation of `GOOD_DATA_RE` (= `^data:image\\/(..|..);`) -/")
    w("def goodDataKinds : List String := "
      + llist(_alternation(normalize_url.GOOD_DATA_RE.pattern, "^data:image\\/", ";")))
    import mdurl._encode as menc

    w("/-- `mdurl._encode.ENCODE_DEFAULT_CHARS` (dependency, as installed) -/")
    w("def encodeDefaultChars : List Nat := " + llist(sorted(ord(c) for c in menc.ENCODE_DEFAULT_CHARS), str))
    w("")
    w("/-- code points on which `isPunctChar` (UNICODE_PUNCT_RE.search) is true, as closed ranges; evaluated over all")
    w("    scalar values with the live pattern object -/")
    rng_list = []
    start = prev = None
    pr = cutils.UNICODE_PUNCT_RE
    for cp in range(0x110000):
        if 0xD800 <= cp <= 0xDFFF:
            hit = False
        else:
            hit = pr.search(chr(cp)) is not None
        if hit:
            if start is None:
                start = cp
            prev = cp
        elif start is not None:
            rng_list.append((start, prev))
            start = None
    if start is not None:
        rng_list.append((start, prev))
    w("def unicodePunctRanges : List (Nat × Nat) := " + llist(rng_list, lambda p: f"({p[0]}, {p[1]})"))
    w("")
    tags, keys, unknown = scan_vocab()
    w("/-- tag literals of every `push(type, tag, nesting)` / `Token(type, tag, nesting)` call and every")
    w("    assignment to `.tag` found by an AST scan of markdown_it/** (`\"h\" + str(level)` = h1..h6) -/")
    w("def pushTags : List String := " + llist(tags))
    w("/-- attribute keys of every `attrs = {..}` literal, `attrSet/attrJoin/attrPush(\"k\", ..)` -/")
    w("def attrKeys : List String := " + llist(keys))
    w("")
    w("/-- code points for which `str.isspace()` holds on this interpreter (what `str.strip()` removes) -/")
    w("def pyWhitespace : List Nat := " + llist([cp for cp in range(0x110000) if chr(cp).isspace()], str))
    pins, callers = scan_pins()
    w("/-- literal each block rule assigns to `state.parentType` while it runs (source scan of the rule functions) -/")
    w("def blockPins : List (String × String) := " + llist(pins, lambda r: f"({lstr(r[0])}, {lstr(r[1])})"))
    w("/-- block rules that run a terminator chain (`getRules(` in their source) -/")
    w("def terminatorCallers : List String := " + llist(callers))
    w("/-- which terminator chain each block rule asks the ruler for (`getRules(\"…\")` in its source) -/")
    w("def terminatorChains : List (String × String) := " + llist(scan_terminator_chains(), lambda r: f"({lstr(r[0])}, {lstr(r[1])})"))
    w("/-- block rules that test `state.parentType` -/")
    w("def parentReaders : List String := " + llist(scan_parent_readers()))
    w("end MdIt.Gen")
    text = "\n".join(L) + "\n"
    target = common.LEAN / "MdIt" / "Generated" / "Tables.lean"
    target.parent.mkdir(parents=True, exist_ok=True)
    old = target.read_text() if target.exists() else None
    changed = []
    if old != text:
        target.write_text(text)
        changed.append("Tables.lean")
    from . import gen_regex

    changed += gen_regex.generate()      # the translator for the library's regular expressions (Generated/Regex.lean)
    return changed


if __name__ == "__main__":
    print(generate())
